package c15

import (
	"crypto/ecdsa"
	"encoding/json"
	"fmt"
	"sort"
	"strings"
	"sync"
	"sync/atomic"

	"verif/core"
	"verif/world"

	xctx "github.com/xuperchain/xupercore/kernel/common/xcontext"
	bft "github.com/xuperchain/xupercore/kernel/consensus/base/driver/chained-bft"
	cCrypto "github.com/xuperchain/xupercore/kernel/consensus/base/driver/chained-bft/crypto"
	bftPb "github.com/xuperchain/xupercore/kernel/consensus/base/driver/chained-bft/pb"
	cctx "github.com/xuperchain/xupercore/kernel/consensus/context"
	nctx "github.com/xuperchain/xupercore/kernel/network/context"
	"github.com/xuperchain/xupercore/kernel/network/p2p"
	cryptoBase "github.com/xuperchain/xupercore/lib/crypto/client/base"
	"github.com/xuperchain/xupercore/lib/utils"
	xpb "github.com/xuperchain/xupercore/protos"
)

// Layer 2: a real Smr (NewSmr) of validator V1 among V1..V4 with the real
// DefaultSaftyRules, DefaultPaceMaker and CBFTCrypto, a network that only
// records what is sent, and a fixed round-robin election. Events call the real
// handlers synchronously (export shim) and the exported entry points the
// consensus plugins use.

var validatorNames = []string{"V1", "V2", "V3", "V4"}

const selfName = "V1"

// bothForms: offer proposals with and without a CommitStateId in the justify.
var bothForms bool

func smrPlans(tier core.Tier) []plan {
	bothForms = tier == core.Thorough
	if tier == core.Thorough {
		return []plan{{uChain, 9}, {uFork, 8}, {uForkH, 6}, {uOrph, 8}}
	}
	return []plan{{uChain, 7}, {uFork, 7}, {uOrph, 6}}
}

// recording network
type fakeNet struct {
	mu    sync.Mutex
	sends map[string]int
}

func (n *fakeNet) Start() {}
func (n *fakeNet) Stop()  {}
func (n *fakeNet) SendMessage(_ xctx.XContext, m *xpb.XuperMessage, _ ...p2p.OptionFunc) error {
	n.mu.Lock()
	n.sends[m.GetHeader().GetType().String()]++
	n.mu.Unlock()
	return nil
}
func (n *fakeNet) SendMessageWithResponse(xctx.XContext, *xpb.XuperMessage, ...p2p.OptionFunc) ([]*xpb.XuperMessage, error) {
	return nil, nil
}
func (n *fakeNet) NewSubscriber(xpb.XuperMessage_MessageType, interface{}, ...p2p.SubscriberOption) p2p.Subscriber {
	return nil
}
func (n *fakeNet) Register(p2p.Subscriber) error   { return nil }
func (n *fakeNet) UnRegister(p2p.Subscriber) error { return nil }
func (n *fakeNet) Context() *nctx.NetCtx           { return nil }
func (n *fakeNet) PeerInfo() xpb.PeerInfo          { return xpb.PeerInfo{} }

var sharedNet = &fakeNet{sends: map[string]int{}}

// fixed election: leader of round r is validator (r-1) mod 4.
type election struct{ addrs []string }

func (e *election) GetLeader(round int64) string {
	k := (round - 1) % int64(len(e.addrs))
	if k < 0 {
		k += int64(len(e.addrs))
	}
	return e.addrs[k]
}
func (e *election) GetValidators(round int64) []string { return append([]string(nil), e.addrs...) }
func (e *election) GetIntAddress(a string) string      { return a }

// memoCrypto is the real crypto client with its pure functions memoised (the
// same few signatures are verified again on every replayed history). Signing
// is memoised per (key, message) too: the signature bytes are not observed.
type memoCrypto struct {
	cryptoBase.CryptoClient
	verify, pub, addr, sign sync.Map
}

type memoRes struct {
	ok  bool
	b   []byte
	s   string
	pk  *ecdsa.PublicKey
	err error
}

func (m *memoCrypto) VerifyECDSA(k *ecdsa.PublicKey, sig, msg []byte) (bool, error) {
	key := k.X.String() + "|" + k.Y.String() + "|" + string(sig) + "|" + string(msg)
	if r, ok := m.verify.Load(key); ok {
		return r.(memoRes).ok, r.(memoRes).err
	}
	ok, err := m.CryptoClient.VerifyECDSA(k, sig, msg)
	m.verify.Store(key, memoRes{ok: ok, err: err})
	return ok, err
}

func (m *memoCrypto) GetEcdsaPublicKeyFromJsonStr(str string) (*ecdsa.PublicKey, error) {
	if r, ok := m.pub.Load(str); ok {
		return r.(memoRes).pk, r.(memoRes).err
	}
	pk, err := m.CryptoClient.GetEcdsaPublicKeyFromJsonStr(str)
	m.pub.Store(str, memoRes{pk: pk, err: err})
	return pk, err
}

func (m *memoCrypto) GetAddressFromPublicKey(k *ecdsa.PublicKey) (string, error) {
	key := k.X.String() + "|" + k.Y.String()
	if r, ok := m.addr.Load(key); ok {
		return r.(memoRes).s, r.(memoRes).err
	}
	a, err := m.CryptoClient.GetAddressFromPublicKey(k)
	m.addr.Store(key, memoRes{s: a, err: err})
	return a, err
}

func (m *memoCrypto) SignECDSA(k *ecdsa.PrivateKey, msg []byte) ([]byte, error) {
	key := k.D.String() + "|" + string(msg)
	if r, ok := m.sign.Load(key); ok {
		return r.(memoRes).b, r.(memoRes).err
	}
	b, err := m.CryptoClient.SignECDSA(k, msg)
	m.sign.Store(key, memoRes{b: b, err: err})
	return b, err
}

var (
	memoOnce sync.Once
	memo     *memoCrypto
)

func cbftCrypto(name string) *cCrypto.CBFTCrypto {
	memoOnce.Do(func() { memo = &memoCrypto{CryptoClient: world.Crypto} })
	k := world.Keys[name]
	return cCrypto.NewCBFTCrypto(&cctx.Address{Address: k.Address, PrivateKeyStr: k.PriJSON, PublicKeyStr: k.PubJSON,
		PrivateKey: k.Priv, PublicKey: &k.Priv.PublicKey}, cctx.CryptoClient(memo))
}

// fakeBlock is the BlockInterface handed to BlockToProposalNode.
type fakeBlock struct {
	id, pre []byte
	height  int64
}

func (b *fakeBlock) GetProposer() []byte                  { return nil }
func (b *fakeBlock) GetHeight() int64                     { return b.height }
func (b *fakeBlock) GetBlockid() []byte                   { return b.id }
func (b *fakeBlock) GetConsensusStorage() ([]byte, error) { return nil, nil }
func (b *fakeBlock) GetTimestamp() int64                  { return 0 }
func (b *fakeBlock) SetItem(string, interface{}) error    { return nil }
func (b *fakeBlock) MakeBlockId() ([]byte, error)         { return b.id, nil }
func (b *fakeBlock) GetPreHash() []byte                   { return b.pre }
func (b *fakeBlock) GetNextHash() []byte                  { return nil }
func (b *fakeBlock) GetPublicKey() string                 { return "" }
func (b *fakeBlock) GetSign() []byte                      { return nil }
func (b *fakeBlock) GetTxIDs() []string                   { return nil }
func (b *fakeBlock) GetInTrunk() bool                     { return true }

// msgs are the signed messages of one universe, built once (the handlers only
// read them).
type msgs struct {
	prop    map[string]*xpb.XuperMessage            // proposal, justify without CommitStateId
	propc   map[string]*xpb.XuperMessage            // proposal, justify with CommitStateId
	vote    map[string]map[string]*xpb.XuperMessage // proposal -> validator -> vote
	justify map[string]*bft.QuorumCert              // proposal -> QC of its parent as stored in its block
}

var (
	msgMu    sync.Mutex
	msgCache = map[string]*msgs{}
)

func must(err error) {
	if err != nil {
		core.HarnessError("c15 fixture: %v", err)
	}
}

func buildMsgs(u *universe) *msgs {
	msgMu.Lock()
	defer msgMu.Unlock()
	if m := msgCache[u.Name]; m != nil {
		return m
	}
	m := &msgs{prop: map[string]*xpb.XuperMessage{}, propc: map[string]*xpb.XuperMessage{}, vote: map[string]map[string]*xpb.XuperMessage{}, justify: map[string]*bft.QuorumCert{}}
	cr := map[string]*cCrypto.CBFTCrypto{}
	var addrs []string
	for _, v := range validatorNames {
		cr[v] = cbftCrypto(v)
		addrs = append(addrs, world.Addr(v))
	}
	el := &election{addrs}
	quorum := func(id string) []*bftPb.QuorumCertSign {
		var out []*bftPb.QuorumCertSign
		for _, v := range validatorNames[1:] {
			sg, err := cr[v].SignVoteMsg([]byte(id))
			must(err)
			out = append(out, sg)
		}
		return out
	}
	for _, p := range u.Nodes {
		leader := world.AddrName[el.GetLeader(p.View)]
		mk := func(commit []byte) *xpb.XuperMessage {
			// what reloadJustifyQC (smr.go:267-299) puts into a proposal
			j := &bft.QuorumCert{VoteInfo: &bft.VoteInfo{ProposalId: []byte(p.Parent), ProposalView: u.view(p.Parent)}}
			if p.Parent != genesis {
				j.LedgerCommitInfo = &bft.LedgerCommitInfo{CommitStateId: commit}
				j.SignInfos = quorum(p.Parent)
			}
			jb, err := json.Marshal(j)
			must(err)
			pm, err := cr[leader].SignProposalMsg(&bftPb.ProposalMsg{ProposalView: p.View, ProposalId: []byte(p.Name), Timestamp: 1, JustifyQC: jb})
			must(err)
			return p2p.NewMessage(xpb.XuperMessage_CHAINED_BFT_NEW_PROPOSAL_MSG, pm, p2p.WithBCName(world.BCName), p2p.WithLogId("c15"))
		}
		m.prop[p.Name] = mk(nil)
		if p.Parent != genesis {
			c, _ := u.anc(p.Parent, 3)
			m.propc[p.Name] = mk([]byte(c))
			m.justify[p.Name] = &bft.QuorumCert{VoteInfo: &bft.VoteInfo{ProposalId: []byte(p.Parent), ProposalView: u.view(p.Parent),
				ParentId: []byte(u.parent(p.Parent)), ParentView: u.view(u.parent(p.Parent))}, SignInfos: quorum(p.Parent)}
		}
		m.vote[p.Name] = map[string]*xpb.XuperMessage{}
		vi, err := json.Marshal(&bft.VoteInfo{ProposalId: []byte(p.Name), ProposalView: p.View, ParentId: []byte(p.Parent), ParentView: u.view(p.Parent)})
		must(err)
		li, err := json.Marshal(&bft.LedgerCommitInfo{VoteInfoHash: []byte(p.Name)})
		must(err)
		for _, v := range validatorNames[1:] {
			sg, err := cr[v].SignVoteMsg([]byte(p.Name))
			must(err)
			m.vote[p.Name][v] = p2p.NewMessage(xpb.XuperMessage_CHAINED_BFT_VOTE_MSG,
				&bftPb.VoteMsg{VoteInfo: vi, LedgerCommitInfo: li, Signature: []*bftPb.QuorumCertSign{sg}}, p2p.WithBCName(world.BCName), p2p.WithLogId("c15"))
		}
	}
	msgCache[u.Name] = m
	return m
}

type smrInst struct {
	u         *universe
	m         *msgs
	s         *bft.Smr
	t         *bft.QCPendingTree
	pm        *bft.DefaultPaceMaker
	sr        *bft.DefaultSaftyRules
	accepted  map[string]bool
	confirmed map[string]bool
	cnt       *counters
	lastNew   []issue
	lastEv    string
	lastKind  string // canonical cause kind of the last event: ins | dup | high | rb
	lastMoved bool   // Root moved during the last event
	lastEff   *int64
}

func newSmrInst(u *universe, c *counters) *smrInst {
	m := buildMsgs(u)
	var addrs []string
	for _, v := range validatorNames {
		addrs = append(addrs, world.Addr(v))
	}
	cr := cbftCrypto(selfName)
	t := newTree(u)
	// as tdpos.go:111-124 / xpoa.go:122-135 assemble it (StartHeight 1: Genesis is block 0)
	pm := &bft.DefaultPaceMaker{CurrentView: 1}
	sr := &bft.DefaultSaftyRules{Crypto: cr, QcTree: t, Log: world.NopLogger{}}
	s := bft.NewSmr(world.BCName, world.Addr(selfName), world.NopLogger{}, sharedNet, cr, pm, sr, &election{addrs}, t)
	return &smrInst{u: u, m: m, s: s, t: t, pm: pm, sr: sr, accepted: map[string]bool{}, confirmed: map[string]bool{genesis: true}, cnt: c}
}

func (i *smrInst) Close() {}

func (i *smrInst) voters(p string) map[string]bool {
	out := map[string]bool{}
	for _, a := range i.s.VVoteAddrs()[utils.F([]byte(p))] {
		out[world.AddrName[a]] = true
	}
	return out
}

func (i *smrInst) seen(p string) bool {
	for _, k := range i.s.VLocalProposals() {
		if k == utils.F([]byte(p)) {
			return true
		}
	}
	return false
}

// ledgerLeaf: p is confirmed and no confirmed block builds on it, i.e. p can be
// the ledger's tip (the ledger may sit on any branch after a walk / truncate).
func (i *smrInst) ledgerLeaf(p string) bool {
	if !i.confirmed[p] {
		return false
	}
	for _, c := range i.u.children(p) {
		if i.confirmed[c] {
			return false
		}
	}
	return true
}

// Enabled. Events:
//
//	prop:p / propc:p  the proposal message of p arrives (handleReceivedProposal),
//	                  signed by the leader of its view, justify = its parent with a
//	                  valid quorum, without / with a CommitStateId; only the first
//	                  receipt does anything (localProposal, smr.go:317)
//	vote:p:v          validator v's vote for p arrives (handleReceivedVoteMsg);
//	                  validators are interchangeable, so only the next new voter
//	                  and one repeated voter are offered
//	conf:p            the ledger confirmed block p (parents first), the plugin's
//	                  ProcessConfirmBlock calls UpdateJustifyQcStatus(justify of p)
//	                  then UpdateQcStatus(BlockToProposalNode(p)) (tdpos.go:344-369)
//	rb:p              ProcessBeforeMiner finds HighQC missing from the ledger or
//	                  above its tip p and calls EnforceUpdateHighQC(p) (tdpos.go:285)
//	rbg               ... or finds HighQC at the tip's height on another branch and
//	                  calls EnforceUpdateHighQC(GetGenericQC()) (tdpos.go:293)
func (i *smrInst) Enabled() []string {
	var prop, vote, conf, rb []string
	high := idOf(i.t.HighQC)
	for _, p := range i.u.Nodes {
		if !i.seen(p.Name) {
			// a leader's justify carries a CommitStateId unless its CommitQC is
			// unset (reloadJustifyQC smr.go:278-288): the quick tier offers the
			// usual form only, the thorough tier both
			if i.m.propc[p.Name] == nil || bothForms {
				prop = append(prop, "prop:"+p.Name)
			}
			if i.m.propc[p.Name] != nil {
				prop = append(prop, "propc:"+p.Name)
			}
		} else {
			vs := i.voters(p.Name)
			var fresh, again string
			for _, v := range validatorNames[1:] {
				if vs[v] && again == "" {
					again = v
				}
				if !vs[v] && fresh == "" {
					fresh = v
				}
			}
			if fresh != "" {
				vote = append(vote, "vote:"+p.Name+":"+fresh)
			}
			// a repeated vote below the quorum changes nothing (smr.go:494-509)
			if again != "" && len(vs) >= 2 {
				vote = append(vote, "vote:"+p.Name+":"+again)
			}
		}
		if !i.confirmed[p.Name] && i.confirmed[p.Parent] {
			conf = append(conf, "conf:"+p.Name)
		}
	}
	tips := []string{}
	if i.ledgerLeaf(genesis) {
		tips = append(tips, genesis)
	}
	for _, p := range i.u.Nodes {
		if i.ledgerLeaf(p.Name) {
			tips = append(tips, p.Name)
		}
	}
	rbg := false
	for _, tip := range tips {
		if tip == high {
			continue
		}
		if !i.confirmed[high] || i.u.view(high) > i.u.view(tip) {
			rb = append(rb, "rb:"+tip)
		} else if i.u.view(high) == i.u.view(tip) && i.t.GenericQC != nil {
			rbg = true
		}
	}
	if rbg {
		rb = append(rb, "rbg")
	}
	out := append(prop, conf...)
	out = append(out, vote...)
	return append(out, rb...)
}

func (i *smrInst) stored(s *snap, p string) bool { return len(s.places[p]) > 0 }

func (i *smrInst) Apply(ev string) string {
	parts := strings.Split(ev, ":")
	kind := parts[0]
	before := takeSnap(i.t)
	viewBefore := i.pm.GetCurrentView()
	pre := map[string]bool{}
	for _, is := range stateIssues(i.u, before, i.accepted) {
		pre[is.ident] = true
	}
	obs := "ok"
	var eff *int64
	acceptedNow := ""
	i.lastKind = map[string]string{"prop": "ins", "propc": "ins", "vote": "high", "conf": "ins", "rb": "rb", "rbg": "rb"}[kind]
	if kind == "conf" && i.accepted[parts[1]] {
		i.lastKind = "dup"
	}
	switch kind {
	case "prop", "propc":
		p := parts[1]
		msg := i.m.prop[p]
		if kind == "propc" {
			msg = i.m.propc[p]
		}
		i.s.VHandleReceivedProposal(msg)
	case "vote":
		if err := i.s.VHandleReceivedVoteMsg(i.m.vote[parts[1]][parts[2]]); err != nil {
			obs = "dropped"
		}
	case "conf":
		p := parts[1]
		if j := i.m.justify[p]; j != nil {
			i.s.UpdateJustifyQcStatus(j)
		}
		node := i.s.BlockToProposalNode(&fakeBlock{id: []byte(p), pre: []byte(i.u.parent(p)), height: i.u.view(p)})
		if err := i.s.UpdateQcStatus(node); err != nil {
			obs = "err"
		} else {
			if !i.accepted[p] {
				acceptedNow = p
			}
			i.accepted[p] = true
		}
		i.confirmed[p] = true
	case "rb":
		if err := i.s.EnforceUpdateHighQC([]byte(parts[1])); err != nil {
			obs = "err"
		}
		eff = &i.cnt.rollbacks
	case "rbg":
		if err := i.s.EnforceUpdateHighQC(i.s.GetGenericQC().GetProposalId()); err != nil {
			obs = "err"
		}
		eff = &i.cnt.rollbacks
	default:
		panic("c15: bad event " + ev)
	}
	probeLookups(i.u, i.t)
	after := takeSnap(i.t)
	switch kind {
	case "prop", "propc":
		p := parts[1]
		eff = &i.cnt.dupNoop // proposal refused before insertion
		if i.stored(after, p) {
			i.accepted[p] = true
			eff = &i.cnt.insOrphan
			if after.inTree(p) {
				eff = &i.cnt.ins
				if len(after.orphStr) < len(before.orphStr) {
					eff = &i.cnt.adopted
				}
			}
		} else {
			obs = "refused"
		}
		if after.rootPtr != before.rootPtr {
			obs += " committed"
		}
	case "vote":
		eff = &i.cnt.highNoop
		if after.marker[0] != before.marker[0] {
			eff = &i.cnt.highMoved
		}
	case "conf":
		eff = &i.cnt.dupNoop
		if before.key() != after.key() {
			eff = &i.cnt.dupChanged
		}
	}
	if after.rootPtr != before.rootPtr {
		eff = &i.cnt.commitsMoved
	}
	i.lastEff = eff
	i.lastEv = ev
	i.lastMoved = after.rootPtr != before.rootPtr
	i.lastNew = i.lastNew[:0]
	for _, is := range stateIssues(i.u, after, i.accepted) {
		if !pre[is.ident] {
			i.lastNew = append(i.lastNew, is)
		}
	}
	i.lastNew = append(i.lastNew, transitionIssues(i.u, before, after, kind == "rb" || kind == "rbg")...)
	i.lastNew = append(i.lastNew, acceptedNowIssues(i.u, after, acceptedNow)...)
	if v := i.pm.GetCurrentView(); v < viewBefore {
		i.lastNew = append(i.lastNew, issue{"pacemaker_monotone", "view_decreased", "t", fmt.Sprintf("pacemaker view went from %d to %d", viewBefore, v)})
	}
	// the exported getters agree with the tree
	if got := string(i.s.GetHighQC().GetProposalId()); got != after.marker[0] {
		i.lastNew = append(i.lastNew, issue{"getters", "gethighqc_differs", "t", fmt.Sprintf("GetHighQC()=%s, tree HighQC=%s", got, after.marker[0])})
	}
	if g := i.s.GetGenericQC(); (g == nil) != (after.marker[1] == "-") || (g != nil && string(g.GetProposalId()) != after.marker[1]) {
		i.lastNew = append(i.lastNew, issue{"getters", "getgenericqc_differs", "t", fmt.Sprintf("GetGenericQC() disagrees with tree GenericQC=%s", after.marker[1])})
	}
	return fmt.Sprintf("%s high=%s root=%s view=%d", obs, after.marker[0], after.rootID, i.pm.GetCurrentView())
}

func (i *smrInst) Key() string {
	s := takeSnap(i.t)
	set := func(m map[string]bool) string {
		var a []string
		for n := range m {
			a = append(a, n)
		}
		sort.Strings(a)
		return strings.Join(a, ",")
	}
	votes := i.s.VVoteAddrs()
	var vk []string
	for k, as := range votes {
		var ns []string
		for _, a := range as {
			ns = append(ns, world.AddrName[a])
		}
		sort.Strings(ns)
		vk = append(vk, k+"="+strings.Join(ns, "+"))
	}
	sort.Strings(vk)
	lv, pr := i.sr.VRounds()
	return fmt.Sprintf("%s|A=%s|C=%s|view=%d lv=%d pr=%d ls=%d|V=%v|P=%v", s.key(), set(i.accepted), set(i.confirmed),
		i.pm.GetCurrentView(), lv, pr, i.s.VLedgerState(), vk, i.s.VLocalProposals())
}

func (i *smrInst) Check(hist []string) []core.Violation {
	var issues []issue
	kind := ""
	if len(hist) == 0 {
		issues = stateIssues(i.u, takeSnap(i.t), i.accepted)
	} else {
		issues = i.lastNew
		kind = i.lastKind
		if i.lastEff != nil {
			atomic.AddInt64(i.lastEff, 1)
		}
	}
	if len(issues) > 0 {
		atomic.AddInt64(&i.cnt.violating, 1)
	}
	return i.cnt.note(toViolations("smr", i.u, hist, kind, i.lastMoved, issues), hist)
}
