package c15

import (
	"errors"
	"fmt"
	"sort"
	"strings"
	"sync"
	"sync/atomic"

	"verif/core"
	"verif/world"

	bftcommon "github.com/xuperchain/xupercore/kernel/consensus/base/common"
	bft "github.com/xuperchain/xupercore/kernel/consensus/base/driver/chained-bft"
	"github.com/xuperchain/xupercore/kernel/ledger"
)

// fakeLedger is the LedgerRely handed to common.InitQCTree: block 0 is the
// genesis G, blocks 1..n are the universe's pre-confirmed chain (heights =
// views).
type fakeLedger struct{ u *universe }

func (l fakeLedger) block(h int64) (ledger.BlockHandle, error) {
	if h == 0 {
		return &fakeBlock{id: []byte(genesis), height: 0}, nil
	}
	if h < 0 || int(h) > len(l.u.Ledger) {
		return nil, errors.New("block not found")
	}
	n := l.u.Ledger[h-1]
	return &fakeBlock{id: []byte(n), pre: []byte(l.u.parent(n)), height: h}, nil
}
func (l fakeLedger) GetConsensusConf() ([]byte, error) { return nil, nil }
func (l fakeLedger) QueryBlock(id []byte) (ledger.BlockHandle, error) {
	for h := 0; h <= len(l.u.Ledger); h++ {
		if b, _ := l.block(int64(h)); string(b.GetBlockid()) == string(id) {
			return b, nil
		}
	}
	return nil, errors.New("block not found")
}
func (l fakeLedger) QueryBlockByHeight(h int64) (ledger.BlockHandle, error) { return l.block(h) }
func (l fakeLedger) GetTipBlock() ledger.BlockHandle {
	b, _ := l.block(int64(len(l.u.Ledger)))
	return b
}
func (l fakeLedger) GetTipXMSnapshotReader() (ledger.XMSnapshotReader, error) { return nil, nil }
func (l fakeLedger) CreateSnapshot([]byte) (ledger.XMReader, error)           { return nil, nil }
func (l fakeLedger) GetTipSnapshot() (ledger.XMReader, error)                 { return nil, nil }

// newTree builds the pending tree with the real common.InitQCTree (start
// height 1): Genesis = Root = HighQC = CommitQC on a fresh chain
// (common.go:81-89), Root = tip-3 / GenericQC = tip-2 / HighQC = tip-1 after a
// restart on a longer ledger (common.go:91-130).
func newTree(u *universe) *bft.QCPendingTree {
	t := bftcommon.InitQCTree(1, fakeLedger{u}, world.NopLogger{})
	if t == nil {
		core.HarnessError("c15: InitQCTree returned nil for universe %s", u.Name)
	}
	return t
}

// newNode builds a fresh node object the way handleReceivedProposal does
// (smr.go:330-399).
func newNode(u *universe, n string) *bft.ProposalNode {
	p := u.by[n]
	return &bft.ProposalNode{In: &bft.QuorumCert{
		VoteInfo:         &bft.VoteInfo{ProposalId: []byte(n), ProposalView: p.View, ParentId: []byte(p.Parent), ParentView: u.view(p.Parent)},
		LedgerCommitInfo: &bft.LedgerCommitInfo{VoteInfoHash: []byte(n)},
	}}
}

// counters: vacuity guards, counted once per explored transition (in Check).
type counters struct {
	ins, insOrphan, adopted, dupNoop, dupChanged, highMoved, highNoop, rollbacks, commitsMoved, commitNoop, violating int64

	mu   sync.Mutex
	keys map[string]*keyNote // violation keys seen in this exploration
}

type keyNote struct {
	Count   int      `json:"occurrences"`
	History []string `json:"shortest_history"`
}

func (c *counters) note(vs []core.Violation, hist []string) []core.Violation {
	if len(vs) == 0 {
		return vs
	}
	c.mu.Lock()
	defer c.mu.Unlock()
	if c.keys == nil {
		c.keys = map[string]*keyNote{}
	}
	for _, v := range vs {
		n := c.keys[v.Key]
		if n == nil {
			n = &keyNote{}
			c.keys[v.Key] = n
		}
		n.Count++
		if n.History == nil || len(hist) < len(n.History) || (len(hist) == len(n.History) && strings.Join(hist, " ") < strings.Join(n.History, " ")) {
			n.History = append([]string(nil), hist...)
		}
	}
	return vs
}

func (c *counters) fill(rep *core.Report, prefix string) {
	c.mu.Lock()
	ks := map[string]*keyNote{}
	for k, v := range c.keys {
		ks[k] = v
	}
	c.mu.Unlock()
	rep.Set(prefix+"violation_keys", ks)
	rep.Set(prefix+"effects", map[string]int64{
		"insert_into_tree": atomic.LoadInt64(&c.ins), "insert_as_orphan": atomic.LoadInt64(&c.insOrphan),
		"orphans_adopted_into_tree": atomic.LoadInt64(&c.adopted),
		"reinsert_noop":             atomic.LoadInt64(&c.dupNoop), "reinsert_changed_state": atomic.LoadInt64(&c.dupChanged),
		"highqc_moved": atomic.LoadInt64(&c.highMoved), "highqc_unchanged": atomic.LoadInt64(&c.highNoop),
		"rollbacks": atomic.LoadInt64(&c.rollbacks), "commit_moved_root": atomic.LoadInt64(&c.commitsMoved),
		"commit_noop": atomic.LoadInt64(&c.commitNoop), "transitions_creating_a_violation": atomic.LoadInt64(&c.violating),
	})
}

// treeInst is layer 1: a real QCPendingTree driven through the calls the Smr
// makes on it.
type treeInst struct {
	u        *universe
	t        *bft.QCPendingTree
	accepted map[string]bool // insert returned nil at least once
	cnt      *counters
	// about the last applied event
	lastNew []issue
	lastEv  string
	lastEff *int64
}

func newTreeInst(u *universe, c *counters) *treeInst {
	i := &treeInst{u: u, t: newTree(u), accepted: map[string]bool{}, cnt: c}
	for _, n := range u.Ledger {
		i.accepted[n] = true // stored by InitQCTree (those below the restart root are not demanded)
	}
	probeLookups(u, i.t)
	return i
}

func (i *treeInst) Close() {}

// Enabled. Every event is a call the Smr really makes on its tree:
//
//	ins:p  first arrival of proposal p, in ANY order relative to its parent
//	       (updateQcStatus from handleReceivedProposal smr.go:401, which accepts
//	       orphans, or from UpdateQcStatus smr.go:193)
//	dup:p  p offered again with a fresh node object (UpdateQcStatus from
//	       ProcessConfirmBlock after the proposal message was handled;
//	       BlockToProposalNode smr.go:544 builds a fresh node whenever p is not
//	       found under Root)
//	high:p a quorum of votes for p was collected / a justify for p was confirmed
//	       (updateHighQC from handleReceivedVoteMsg smr.go:515, which requires p
//	       under Root, and UpdateJustifyQcStatus smr.go:181); repeats with every
//	       further vote
//	rb:p   explicit rollback to p (EnforceUpdateHighQC smr.go:603 from the
//	       miner with the ledger tip / GenericQC, tdpos.go:285,293), p != HighQC
//	       as the caller only rolls back when HighQC differs from the tip
//	cmt:p  a proposal whose justify is p and carries a CommitStateId arrives
//	       (updateCommit smr.go:374; the handler may stop at smr.go:377/385
//	       before inserting the proposal, or go on: then ins follows)
func (i *treeInst) Enabled() []string {
	s := takeSnap(i.t)
	var ins, dup, high, rb, cmt []string
	for _, p := range i.u.Nodes {
		if !i.accepted[p.Name] {
			ins = append(ins, "ins:"+p.Name)
		} else {
			dup = append(dup, "dup:"+p.Name)
		}
	}
	var under []string
	for id, ps := range s.places {
		for _, p := range ps {
			if p.inTree {
				under = append(under, id)
				break
			}
		}
	}
	sort.Strings(under)
	for _, id := range under {
		if id != genesis {
			high = append(high, "high:"+id)
		}
		if id != s.marker[0] {
			rb = append(rb, "rb:"+id)
		}
		// updateCommit is a no-op unless four stored ancestors exist
		if i.storedDepth(s, id) >= 4 {
			cmt = append(cmt, "cmt:"+id)
		}
	}
	// late traffic for proposals that were accepted and are no longer (or not yet) under Root - pruned by
	// a commit, or waiting as orphans: a quorum / justify, a rollback request, a commit request. The tree
	// looks the id up from Root, finds nothing and ignores the call.
	var late []string
	names := make([]string, 0, len(i.accepted))
	for n := range i.accepted {
		names = append(names, n)
	}
	sort.Strings(names)
	for _, n := range names {
		if s.inTree(n) || n == genesis {
			continue
		}
		late = append(late, "high:"+n, "rb:"+n, "cmt:"+n)
	}
	out := append(ins, high...)
	out = append(out, cmt...)
	out = append(out, rb...)
	out = append(out, dup...)
	return append(out, late...)
}

// storedDepth: number of links from Root down to id (first occurrence).
func (i *treeInst) storedDepth(s *snap, id string) int {
	for _, p := range s.places[id] {
		if p.inTree {
			return p.depth
		}
	}
	return -1
}

func (i *treeInst) Apply(ev string) string {
	kind, arg := split(ev)
	before := takeSnap(i.t)
	pre := map[string]bool{}
	for _, is := range stateIssues(i.u, before, i.accepted) {
		pre[is.ident] = true
	}
	obs := "ok"
	var eff *int64
	acceptedNow := ""
	switch kind {
	case "ins", "dup":
		if i.u.by[arg] == nil {
			panic("c15: unknown proposal " + arg)
		}
		err := i.t.VUpdateQcStatus(newNode(i.u, arg))
		if err != nil {
			obs = "err"
		} else {
			if !i.accepted[arg] {
				acceptedNow = arg
			}
			i.accepted[arg] = true
		}
	case "high":
		i.t.VUpdateHighQC([]byte(arg))
	case "rb":
		if err := i.t.VEnforceUpdateHighQC([]byte(arg)); err != nil {
			obs = "err"
		}
		eff = &i.cnt.rollbacks
	case "cmt":
		i.t.VUpdateCommit([]byte(arg))
	default:
		panic("c15: bad event " + ev)
	}
	probeLookups(i.u, i.t)
	after := takeSnap(i.t)
	changed := before.key() != after.key()
	switch kind {
	case "ins":
		eff = &i.cnt.insOrphan
		if after.inTree(arg) {
			eff = &i.cnt.ins
			if len(after.orphStr) < len(before.orphStr) {
				eff = &i.cnt.adopted
			}
		}
	case "dup":
		eff = &i.cnt.dupNoop
		if changed {
			eff = &i.cnt.dupChanged
		}
	case "high":
		eff = &i.cnt.highNoop
		if after.marker[0] != before.marker[0] {
			eff = &i.cnt.highMoved
		}
	case "cmt":
		eff = &i.cnt.commitNoop
		if after.rootPtr != before.rootPtr {
			eff = &i.cnt.commitsMoved
		}
	}
	i.lastEff = eff
	i.lastEv = ev
	i.lastNew = i.lastNew[:0]
	for _, is := range stateIssues(i.u, after, i.accepted) {
		if !pre[is.ident] {
			i.lastNew = append(i.lastNew, is)
		}
	}
	i.lastNew = append(i.lastNew, transitionIssues(i.u, before, after, kind == "rb")...)
	i.lastNew = append(i.lastNew, acceptedNowIssues(i.u, after, acceptedNow)...)
	return fmt.Sprintf("%s high=%s root=%s", obs, after.marker[0], after.rootID)
}

func split(ev string) (string, string) {
	k := strings.IndexByte(ev, ':')
	if k < 0 {
		return ev, ""
	}
	return ev[:k], ev[k+1:]
}

func (i *treeInst) Key() string {
	s := takeSnap(i.t)
	acc := make([]string, 0, len(i.accepted))
	for n := range i.accepted {
		acc = append(acc, n)
	}
	sort.Strings(acc)
	return s.key() + "|A=" + strings.Join(acc, ",")
}

// causeLabel names the code path that produced a violation: the invariant
// families about markers are written by updateHighQC whatever event called it.
func causeLabel(family, kind string, rootMoved bool) string {
	switch kind {
	case "":
		return "init"
	case "rb":
		return "rollback"
	case "cmt":
		return "commit"
	}
	if rootMoved {
		// layer 2: updateCommit ran inside the proposal handler
		switch family {
		case "high_reachable", "root_descendant", "stored_once", "tree":
			return "commit"
		}
	}
	switch family {
	case "markers", "high_reachable", "high_monotone":
		return "update_highqc"
	}
	switch kind {
	case "ins":
		return "insert"
	case "dup":
		return "reinsert"
	case "high":
		return "update_highqc"
	}
	return kind
}

func (i *treeInst) Check(hist []string) []core.Violation {
	var issues []issue
	kind := ""
	if len(hist) == 0 {
		issues = stateIssues(i.u, takeSnap(i.t), i.accepted)
	} else {
		issues = i.lastNew
		kind, _ = split(i.lastEv)
		if i.lastEff != nil {
			atomic.AddInt64(i.lastEff, 1)
		}
	}
	if len(issues) > 0 {
		atomic.AddInt64(&i.cnt.violating, 1)
	}
	return i.cnt.note(toViolations("tree", i.u, hist, kind, false, issues), hist)
}

// ObservedHighQCOutsideRoot counts states in which HighQC is not under Root (not judged).
var ObservedHighQCOutsideRoot int64

func toViolations(layer string, u *universe, hist []string, kind string, rootMoved bool, issues []issue) []core.Violation {
	var out []core.Violation
	seen := map[string]bool{}
	for _, is := range issues {
		// Lead decision: the statement does not require the highest-certified
		// marker to hang under the committed root; updateCommit's own TODO
		// (context.go) leaves it on a pruned branch or behind the new root until
		// the next insert / quorum repairs it. Observed and counted, not judged.
		if is.family == "high_reachable" && (is.class == "highqc_on_pruned_branch" || is.class == "highqc_behind_committed_root") {
			atomic.AddInt64(&ObservedHighQCOutsideRoot, 1)
			continue
		}
		key := "c15." + is.family + "." + is.class + ".by_" + causeLabel(is.family, kind, rootMoved)
		if seen[key] {
			continue
		}
		seen[key] = true
		out = append(out, core.Violation{
			Key:      key,
			Summary:  fmt.Sprintf("[%s/%s] after %v: %s", layer, u.Name, hist, is.detail),
			Case:     map[string]interface{}{"layer": layer, "universe": u.Name, "history": hist},
			Expected: expectation[is.family],
			Observed: is.detail,
		})
	}
	return out
}

var expectation = map[string]string{
	"tree":            "what hangs under Root is a tree: no node reachable twice, every son's parent id is its father's id",
	"stored_once":     "every accepted proposal that descends from the committed root is stored exactly once in root tree ∪ orphan forest",
	"adoption":        "an orphan is adopted when its parent arrives: a stored node whose parent is stored hangs under it",
	"high_reachable":  "HighQC is a node reachable from Root",
	"markers":         "GenericQC / LockedQC / CommitQC, whenever set, are the 1st / 2nd / 3rd ancestors of HighQC",
	"high_monotone":   "HighQC's view never decreases except by explicit rollback",
	"root_descendant": "the committed root only moves to a descendant of the previous root",
}
