package c15

import "sort"

// pdef is one symbolic proposal: id = its name, view, parent name ("G" is the
// genesis / initial root, view 0, never a proposal itself).
type pdef struct {
	Name   string
	View   int64
	Parent string
}

type universe struct {
	Name  string
	Nodes []pdef
	by    map[string]*pdef
	// Ledger: a chain of proposals (heights 1..n = their views) already in the
	// ledger when the node starts: InitQCTree then builds the restart shape.
	Ledger []string
}

func (u *universe) withLedger(chain ...string) *universe {
	for k, n := range chain {
		if u.by[n] == nil || u.by[n].View != int64(k+1) || (k == 0 && u.by[n].Parent != genesis) || (k > 0 && u.by[n].Parent != chain[k-1]) {
			panic("c15: universe " + u.Name + ": bad ledger chain at " + n)
		}
	}
	u.Ledger = chain
	return u
}

const genesis = "G"

func mkUniverse(name string, nodes ...pdef) *universe {
	u := &universe{Name: name, Nodes: nodes, by: map[string]*pdef{}}
	for i := range u.Nodes {
		u.by[u.Nodes[i].Name] = &u.Nodes[i]
	}
	for _, n := range u.Nodes {
		if n.Parent != genesis && u.by[n.Parent] == nil {
			panic("c15: universe " + name + ": unknown parent of " + n.Name)
		}
		if n.View <= u.view(n.Parent) {
			panic("c15: universe " + name + ": view of " + n.Name + " not above its parent's")
		}
	}
	return u
}

func (u *universe) known(n string) bool { return n == genesis || u.by[n] != nil }

func (u *universe) view(n string) int64 {
	if p := u.by[n]; p != nil {
		return p.View
	}
	return 0
}

// parent of a proposal; genesis has none ("").
func (u *universe) parent(n string) string {
	if p := u.by[n]; p != nil {
		return p.Parent
	}
	return ""
}

// anc is the k-th ancestor of n; exists is false when the walk would pass
// above Genesis. Genesis then stands for its own (committed, never stored)
// ancestors and is returned: InitQCTree starts a node with CommitQC = Genesis
// under exactly that reading.
func (u *universe) anc(n string, k int) (name string, exists bool) {
	for ; k > 0; k-- {
		if n == genesis {
			return genesis, false
		}
		n = u.parent(n)
	}
	return n, true
}

// descends: r is n or an ancestor of n.
func (u *universe) descends(n, r string) bool {
	for {
		if n == r {
			return true
		}
		if n == genesis || n == "" {
			return false
		}
		n = u.parent(n)
	}
}

func (u *universe) children(n string) []string {
	var out []string
	for _, p := range u.Nodes {
		if p.Parent == n {
			out = append(out, p.Name)
		}
	}
	sort.Strings(out)
	return out
}

// The proposal universes. Views may skip and may repeat on competing branches
// (the SMR explicitly supports equal rounds on different branches, smr.go:41).
var universes = map[string]*universe{}

func reg(u *universe) *universe { universes[u.Name] = u; return u }

var (
	// U1: chain of 6.
	uChain = reg(mkUniverse("chain6",
		pdef{"a1", 1, "G"}, pdef{"a2", 2, "a1"}, pdef{"a3", 3, "a2"},
		pdef{"a4", 4, "a3"}, pdef{"a5", 5, "a4"}, pdef{"a6", 6, "a5"}))

	// U2: chain of 5 with competing children at two levels: b1 competes with a1
	// under G (higher view, as produced after a rollback), c3 competes with a3
	// under a2 (view skips 3).
	uFork = reg(mkUniverse("fork2",
		pdef{"a1", 1, "G"}, pdef{"a2", 2, "a1"}, pdef{"a3", 3, "a2"},
		pdef{"a4", 4, "a3"}, pdef{"a5", 5, "a4"},
		pdef{"b1", 5, "G"}, pdef{"c3", 4, "a2"}))

	// U2h: the same shape with views = heights, as the tdpos / xpoa plugins
	// number them (ProcessProposal(block.GetHeight(), ...)): competing children
	// carry equal views, views never skip.
	uForkH = reg(mkUniverse("forkh",
		pdef{"a1", 1, "G"}, pdef{"a2", 2, "a1"}, pdef{"a3", 3, "a2"},
		pdef{"a4", 4, "a3"}, pdef{"a5", 5, "a4"},
		pdef{"b1", 1, "G"}, pdef{"b2", 2, "b1"}, pdef{"c3", 3, "a2"}))

	// U3: two orphan siblings s1, s2 whose parent q can arrive later, itself as
	// an orphan (its parent r missing); t hangs under s2.
	uOrph = reg(mkUniverse("orphans",
		pdef{"r", 1, "G"}, pdef{"q", 2, "r"}, pdef{"s1", 3, "q"},
		pdef{"s2", 3, "q"}, pdef{"t", 4, "s2"}))

	// U5: restart on a ledger of 4 blocks: InitQCTree gives Root = r1,
	// GenericQC = r2, HighQC = r3 with the tip r4 under it; then r5, r6 extend
	// the tip, x4 competes with r4 and y5 hangs under x4.
	uRestart4 = reg(mkUniverse("restart4",
		pdef{"r1", 1, "G"}, pdef{"r2", 2, "r1"}, pdef{"r3", 3, "r2"}, pdef{"r4", 4, "r3"},
		pdef{"r5", 5, "r4"}, pdef{"r6", 6, "r5"}, pdef{"x4", 4, "r3"}, pdef{"y5", 5, "x4"}).withLedger("r1", "r2", "r3", "r4"))

	// U6: restart on a ledger of 2 blocks: Root = a copy of block 0, HighQC = r1
	// with the tip r2 under it, no GenericQC.
	uRestart2 = reg(mkUniverse("restart2",
		pdef{"r1", 1, "G"}, pdef{"r2", 2, "r1"}, pdef{"r3", 3, "r2"}, pdef{"r4", 4, "r3"},
		pdef{"r5", 5, "r4"}, pdef{"x2", 2, "r1"}).withLedger("r1", "r2"))

	// U4 (thorough): 11 proposals mixing the three shapes.
	uMix = reg(mkUniverse("mix11",
		pdef{"a1", 1, "G"}, pdef{"a2", 2, "a1"}, pdef{"a3", 3, "a2"},
		pdef{"a4", 4, "a3"}, pdef{"a5", 5, "a4"}, pdef{"a6", 6, "a5"},
		pdef{"b2", 2, "a1"}, pdef{"b3", 4, "b2"},
		pdef{"c4", 4, "a3"}, pdef{"c5", 5, "c4"}, pdef{"d5", 5, "c4"}))
)
