package c16

import (
	"encoding/json"
	"errors"
	"fmt"
	"runtime"
	"sort"
	"sync"
	"time"

	"verif/core"
	"verif/world"

	"github.com/xuperchain/xupercore/bcs/ledger/xledger/state"
	lpb "github.com/xuperchain/xupercore/bcs/ledger/xledger/xldgpb"
	"github.com/xuperchain/xupercore/kernel/common/xcontext"
	"github.com/xuperchain/xupercore/kernel/consensus"
	"github.com/xuperchain/xupercore/kernel/consensus/base"
	cctx "github.com/xuperchain/xupercore/kernel/consensus/context"
	"github.com/xuperchain/xupercore/kernel/consensus/def"
	"github.com/xuperchain/xupercore/kernel/contract"
	"github.com/xuperchain/xupercore/kernel/ledger"
	nctx "github.com/xuperchain/xupercore/kernel/network/context"
	"github.com/xuperchain/xupercore/kernel/network/p2p"
	"github.com/xuperchain/xupercore/protos"
)

// ---------------------------------------------------------------- stub ledger

var errStub = errors.New("stub ledger: not found")

// stubLedger implements cctx.LedgerRely: a linear chain of InternalBlocks
// (served as real BlockAgents), one contract-storage map shared by every
// snapshot, and switches that make the validator set unresolvable.
type stubLedger struct {
	conf     []byte
	chain    []*lpb.InternalBlock
	byID     map[string]*lpb.InternalBlock
	store    map[string][]byte // bucket + "\x00" + key
	failByHt bool              // QueryBlockByHeight fails
	failSnap bool              // CreateSnapshot fails
	// versioned: the contract storage is the list of writes below, each made by
	// the trunk block of a height; a snapshot of a block shows the writes of the
	// blocks up to its height (xpoa.setchange)
	versioned bool
	writes    []verWrite
}

type verWrite struct {
	block int64
	key   string // bucket + "\x00" + key
	value []byte
}

// valueAt is the value of a key in the state after the block of height h.
func (l *stubLedger) valueAt(h int64, key string) ([]byte, bool) {
	var v []byte
	found := false
	for _, w := range l.writes {
		if w.block <= h && w.key == key {
			v, found = w.value, true
		}
	}
	return v, found
}

// snapHeight: which state a reader shows (-1: the single shared map).
func (l *stubLedger) snapHeight(blkId []byte) (int64, bool) {
	if !l.versioned {
		return -1, true
	}
	b, ok := l.byID[string(blkId)]
	if !ok {
		return 0, false
	}
	return b.Height, true
}

func newStubLedger(conf []byte) *stubLedger {
	return &stubLedger{conf: conf, byID: map[string]*lpb.InternalBlock{}, store: map[string][]byte{}}
}

func (l *stubLedger) put(b *lpb.InternalBlock) {
	l.chain = append(l.chain, b)
	l.byID[string(b.Blockid)] = b
}

func (l *stubLedger) GetConsensusConf() ([]byte, error) { return l.conf, nil }

func (l *stubLedger) QueryBlock(id []byte) (ledger.BlockHandle, error) {
	b, ok := l.byID[string(id)]
	if !ok {
		return nil, errStub
	}
	return state.NewBlockAgent(b), nil
}

func (l *stubLedger) QueryBlockByHeight(h int64) (ledger.BlockHandle, error) {
	if l.failByHt || h < 0 || h >= int64(len(l.chain)) {
		return nil, errStub
	}
	return state.NewBlockAgent(l.chain[h]), nil
}

func (l *stubLedger) GetTipBlock() ledger.BlockHandle {
	return state.NewBlockAgent(l.chain[len(l.chain)-1])
}

type stubReader struct {
	l *stubLedger
	h int64 // versioned ledgers: the height of the block the snapshot is of
}

func (r stubReader) Get(bucket string, key []byte) (*ledger.VersionedData, error) {
	v, ok := r.l.store[bucket+"\x00"+string(key)]
	if r.l.versioned {
		v, ok = r.l.valueAt(r.h, bucket+"\x00"+string(key))
	}
	if !ok {
		return nil, nil
	}
	return &ledger.VersionedData{PureData: &ledger.PureData{Bucket: bucket, Key: key, Value: v}}, nil
}

func (r stubReader) Select(bucket string, startKey []byte, endKey []byte) (ledger.XMIterator, error) {
	return nil, errStub
}

type stubTipReader struct{ l *stubLedger }

func (r stubTipReader) Get(bucket string, key []byte) ([]byte, error) {
	if r.l.versioned {
		v, _ := r.l.valueAt(int64(len(r.l.chain)-1), bucket+"\x00"+string(key))
		return v, nil
	}
	return r.l.store[bucket+"\x00"+string(key)], nil
}

func (l *stubLedger) GetTipXMSnapshotReader() (ledger.XMSnapshotReader, error) {
	return stubTipReader{l}, nil
}

func (l *stubLedger) CreateSnapshot(blkId []byte) (ledger.XMReader, error) {
	if l.failSnap {
		return nil, errStub
	}
	h, ok := l.snapHeight(blkId)
	if !ok {
		return nil, errStub
	}
	return stubReader{l, h}, nil
}

func (l *stubLedger) GetTipSnapshot() (ledger.XMReader, error) {
	return stubReader{l, int64(len(l.chain) - 1)}, nil
}

// ------------------------------------------------- stub network and contracts

type stubNet struct{ account string }

func (n *stubNet) Start() {}
func (n *stubNet) Stop()  {}
func (n *stubNet) SendMessage(xcontext.XContext, *protos.XuperMessage, ...p2p.OptionFunc) error {
	return nil
}
func (n *stubNet) SendMessageWithResponse(xcontext.XContext, *protos.XuperMessage, ...p2p.OptionFunc) ([]*protos.XuperMessage, error) {
	return nil, nil
}
func (n *stubNet) NewSubscriber(protos.XuperMessage_MessageType, interface{}, ...p2p.SubscriberOption) p2p.Subscriber {
	return nil
}
func (n *stubNet) Register(p2p.Subscriber) error   { return nil }
func (n *stubNet) UnRegister(p2p.Subscriber) error { return nil }
func (n *stubNet) Context() *nctx.NetCtx           { return nil }
func (n *stubNet) PeerInfo() protos.PeerInfo       { return protos.PeerInfo{Account: n.account} }

type stubRegistry struct {
	m map[string]contract.KernMethod
}

func (r *stubRegistry) RegisterKernMethod(c, method string, h contract.KernMethod) {
	r.m[c+"."+method] = h
}
func (r *stubRegistry) RegisterShortcut(oldmethod, c, method string) {}
func (r *stubRegistry) GetKernMethod(c, method string) (contract.KernMethod, error) {
	h, ok := r.m[c+"."+method]
	if !ok {
		return nil, errStub
	}
	return h, nil
}

type stubManager struct{ r *stubRegistry }

func (m *stubManager) NewContext(cfg *contract.ContextConfig) (contract.Context, error) {
	return nil, errStub
}
func (m *stubManager) NewStateSandbox(cfg *contract.SandboxConfig) (contract.StateSandbox, error) {
	return nil, errStub
}
func (m *stubManager) GetKernRegistry() contract.KernRegistry { return m.r }

// newCtx builds the consensus context of node `self` over a stub ledger.
func newCtx(l *stubLedger, self string) cctx.ConsensusCtx {
	c, _ := newCtxReg(l, self)
	return c
}

// newCtxReg also hands out the kernel-method registry the constructor registers with.
func newCtxReg(l *stubLedger, self string) (cctx.ConsensusCtx, *stubRegistry) {
	k := world.Keys[self]
	reg := &stubRegistry{m: map[string]contract.KernMethod{}}
	return cctx.ConsensusCtx{
		BaseCtx:  xcontext.BaseCtx{XLog: world.NopLogger{}},
		BcName:   "xuper",
		Address:  &cctx.Address{Address: k.Address, PrivateKey: k.Priv, PrivateKeyStr: k.PriJSON, PublicKey: &k.Priv.PublicKey, PublicKeyStr: k.PubJSON},
		Crypto:   world.Crypto,
		Contract: &stubManager{r: reg},
		Ledger:   l,
		Network:  &stubNet{account: k.Address},
	}, reg
}

// genesisConf renders what Ledger.GetConsensusConf returns: {"name":..,"config":"<json>"}.
func genesisConf(name, cfg string) []byte {
	b, _ := json.Marshal(def.ConsensusConfig{ConsensusName: name, Config: cfg})
	return b
}

// build makes the pluggable consensus (the object the miner calls) and, apart
// from it, a plugin instance of the same configuration for the export shims.
func build(l *stubLedger, self, name, cfg string) (consensus.ConsensusInterface, base.ConsensusImplInterface, error) {
	pc, err := consensus.NewPluggableConsensus(newCtx(l, self))
	if err != nil {
		return nil, nil, fmt.Errorf("NewPluggableConsensus(%s): %v", name, err)
	}
	plug, err := consensus.NewPluginConsensus(newCtx(l, self), def.ConsensusConfig{ConsensusName: name, Config: cfg, StartHeight: 1})
	if err != nil || plug == nil {
		return nil, nil, fmt.Errorf("NewPluginConsensus(%s): %v", name, err)
	}
	return pc, plug, nil
}

var xctx = &xcontext.BaseCtx{XLog: world.NopLogger{}}

// accept calls CheckMinerMatch; a panic is reported, never propagated.
func accept(pc consensus.ConsensusInterface, b *lpb.InternalBlock) (ok bool, panicked string) {
	defer func() {
		if r := recover(); r != nil {
			ok, panicked = false, fmt.Sprint(r)
		}
	}()
	ok, _ = pc.CheckMinerMatch(xctx, state.NewBlockAgent(b))
	return ok, ""
}

// plainChain fills the stub ledger with n+1 linked blocks (heights 0..n)
// carrying term 1 and the given timestamp, proposed by `by`.
func plainChain(l *stubLedger, n int, ts int64, by string) {
	var pre []byte
	for h := 0; h <= n; h++ {
		b := &lpb.InternalBlock{Version: 1, Height: int64(h), Blockid: []byte(fmt.Sprintf("stub-block-%02d", h)), PreHash: pre,
			Timestamp: ts, Proposer: []byte(by), CurTerm: 1, InTrunk: true}
		l.put(b)
		pre = b.Blockid
	}
}

// ------------------------------------------------------------------- workers

// parallel runs fn(i) for i in [0,n) on all cores; order of side effects on the
// report is made deterministic by the callers (violations are merged by index).
func parallel(n int, fn func(i int)) {
	w := runtime.NumCPU()
	if w > n {
		w = n
	}
	if w < 1 {
		w = 1
	}
	var wg sync.WaitGroup
	next := 0
	var mu sync.Mutex
	for k := 0; k < w; k++ {
		wg.Add(1)
		go func() {
			defer wg.Done()
			for {
				mu.Lock()
				i := next
				next++
				mu.Unlock()
				if i >= n {
					return
				}
				fn(i)
			}
		}()
	}
	wg.Wait()
}

// outcome of one enumerated unit (a configuration, a chain, an exponent ...).
type outcome struct {
	viol     []core.Violation
	counts   map[string]int
	distinct map[string]bool
	sample   interface{}
}

func newOutcome() *outcome { return &outcome{counts: map[string]int{}, distinct: map[string]bool{}} }

func (o *outcome) bad(key, summary string, cs map[string]interface{}, expected, observed string) {
	for _, v := range o.viol {
		if v.Key == key {
			o.counts["viol:"+key]++
			return
		}
	}
	o.counts["viol:"+key]++
	if cs != nil {
		cs["key"] = key // lets Replay report the same classification first
	}
	o.viol = append(o.viol, core.Violation{Key: key, Summary: summary, Case: cs, Expected: expected, Observed: observed})
}

// merge folds unit outcomes into the report in index order.
func merge(rep *core.Report, prefix string, outs []*outcome, distinct map[string]bool) {
	tot := map[string]int{}
	for _, o := range outs {
		if o == nil {
			continue
		}
		for _, v := range o.viol {
			n := o.counts["viol:"+v.Key]
			rep.Violation(v)
			for ; n > 1; n-- { // keep the occurrence count
				rep.Violation(core.Violation{Key: v.Key})
			}
		}
		for k, n := range o.counts {
			if len(k) > 5 && k[:5] == "viol:" {
				continue
			}
			tot[k] += n
		}
		for k := range o.distinct {
			distinct[k] = true
		}
		if o.sample != nil {
			rep.Sample(o.sample)
		}
	}
	keys := make([]string, 0, len(tot))
	for k := range tot {
		keys = append(keys, k)
	}
	sort.Strings(keys)
	for _, k := range keys {
		rep.Set(prefix+k, tot[k])
	}
}

// ----------------------------------------------------------------- run/replay

func run(tier core.Tier) *core.Report {
	rep := core.NewReport("C16", tier, "exploration")
	world.Init()
	distinct := map[string]bool{}
	evals := 0
	for _, part := range []struct {
		name string
		run  func(*core.Report, core.Tier, map[string]bool) int
	}{{"tdpos", runTdpos}, {"xpoa", runXpoa}, {"single", runSingle}, {"pow.compact", runCompact}, {"pow.isproofed", runIsProofed}, {"pow.chain", runPowChains}, {"pow.history", runPowHistory},
		{"xpoa.setchange", runXpoaSetChange}, {"pow.fork", runPowFork}} {
		t0 := time.Now()
		n := part.run(rep, tier, distinct)
		evals += n
		rep.Set(part.name+".evaluations", n)
		rep.Set(part.name+".wall_s", float64(time.Since(t0).Milliseconds())/1000)
	}
	rep.Set("evaluations", evals)
	rep.Set("distinct_nontrivial", len(distinct))
	rep.Set("rule", "cases are enumerated as the full cross product of the listed finite domains in index order "+
		"(TDPoS/XPoA: configuration box x every millisecond x every candidate proposer x ledger mode; single: proposer x signature x key; "+
		"XPoA set change: (period, block_num) x (old, new) validator-set pair of equal or different size, the new one written by the real editValidates kernel method in a block of a stub chain with per-block snapshots x verifying node with the old / the new set as its own mining set x candidate height before / at / after the activation height x every millisecond x every member of both sets + outsider + empty; "+
		"PoW: exponent x mantissa, target x hash, stub chain x candidate block, fork scenario (trunk and side branch with other timestamps, fork height inside / at / below the retarget window start) x trunk tip x candidate on branch / trunk with bits of its own history, of the other history and of mixtures of both x hash class, and call history x candidate block: rightful chain across two retarget heights x tip height at which the instance is constructed x "+
		"every fixed-length sequence over {ProcessBeforeMiner, CheckMinerMatch on all candidates that extend the tip or compete with it, confirm the next rightful block}, each verdict judged by the reference formula and against the baseline history of an instance that is up since genesis and has just started a mining round). A case is non-trivial when the oracle had something to decide: "+
		"distinct (part, schedule cell kind or candidate class, [xpoa.setchange: relation and sizes of the two sets, node, side of the activation height; pow.fork: parent chain, position of the fork relative to the retarget window, which history the bits come from, hash class, trunk tip;] [pow.history: position of the candidate relative to the tip, and whether the instance last prepared (start-up / ProcessBeforeMiner) for this height or for another one with the same / an easier / a harder target,] accepted/rejected) combinations are counted, so a run in which "+
		"everything is rejected or everything accepted yields a small number")
	rep.Assume("stub LedgerRely serves a linear chain of real BlockAgents and one contract-storage map for every snapshot; the real ledger is not involved")
	rep.Assume("TDPoS/XPoA are run without bft_config: the chained-BFT justify check of CheckMinerMatch (property C14) is not exercised here")
	rep.Assume("TDPoS validator set is the configured initial set (resolved by height on a young chain, through the term / snapshot lookups on a grown chain with no vote records); elected sets are not enumerated. XPoA: the initial set and one set edited through the contract record (reverse order)")
	rep.Assume("xpoa.setchange: the set in force for a block of height r is what the snapshot of the trunk block r-4 records (initial set while r <= 4 or nothing is recorded): a write of block c is in force from height c+4 on, as the comments of xpoa/schedule.go state (change takes effect three blocks after the block that contains it); poa mode (no bft_config); the node's own mining set is only changed by the constructor (CompeteMaster, which sleeps on the wall clock, is not called)")
	rep.Assume("pow.fork: side-branch blocks are served by QueryBlock (by id) only, trunk blocks by id and by height; ProcessConfirmBlock is called for trunk blocks only")
	rep.Assume("a block's height is what the block claims (the header hash does not cover it and Ledger.ConfirmBlock overwrites it after CheckMinerMatch); the reference takes the true height = parent height + 1. Claimed heights are enumerated for PoW (true, 1) and XPoA (true, 2), not for TDPoS")
	rep.Assume("TDPoS: before the configured init time no term exists, so nobody is entitled there; XPoA has no origin, for timestamps outside the enumerated rounds (negative, extreme) the code's own schedule triple is taken as naming the entitled validator and only accept-implies-entitled, at most one producer and no panic are judged")
	rep.Assume("PoW: pow.chain covers the Bitcoin-style mode (defaultTarget > 256) and the legacy leading-zero-bits mode (declared bits <= 256 only: IsProofed shifts by uint(256-bits), which wraps for larger values and would allocate 2^32 bits); pow.compact, pow.isproofed, pow.fork and pow.history cover the Bitcoin-style mode only")
	rep.Assume("pow.history runs the PoW plugin as NewPluggableConsensus makes it from the genesis configuration (consensus.NewPluginConsensus, StartHeight 1, Index 0, Start()); the pass-through PluggableConsensus layer (height-follows-parent guard) is exercised by pow.chain. " +
		"A panic of the constructor / ProcessBeforeMiner / ProcessConfirmBlock is reported as an observation (pow.history.*_panics, pow.history.panic_observations), not as a violation: the property speaks about accepted blocks")
	rep.Assume("PoW expectedPeriod is taken in seconds, as refreshDifficulty divides nanosecond timestamps by 1e9 before comparing")
	return rep
}

type caseHdr struct {
	Part string `json:"part"`
	Key  string `json:"key"`
}

func replay(c json.RawMessage) (bool, string, error) {
	world.Init()
	var h caseHdr
	if err := json.Unmarshal(c, &h); err != nil {
		return false, "", err
	}
	var o *outcome
	var err error
	switch h.Part {
	case "tdpos":
		o, err = replayTdpos(c)
	case "xpoa":
		o, err = replayXpoa(c)
	case "single":
		o, err = replaySingle(c)
	case "pow.compact":
		o, err = replayCompact(c)
	case "pow.isproofed":
		o, err = replayIsProofed(c)
	case "pow.chain":
		o, err = replayPowChain(c)
	case "pow.history":
		o, err = replayPowHistory(c)
	case "xpoa.setchange":
		o, err = replayXpoaSetChange(c)
	case "pow.fork":
		o, err = replayPowFork(c)
	default:
		return false, "", fmt.Errorf("unknown part %q", h.Part)
	}
	if err != nil {
		return false, "", err
	}
	if len(o.viol) > 0 {
		v := o.viol[0]
		for _, x := range o.viol {
			if x.Key == h.Key {
				v = x
			}
		}
		return true, fmt.Sprintf("%s: %s (expected: %s; observed: %s)", v.Key, v.Summary, v.Expected, v.Observed), nil
	}
	return false, "case replayed without violation", nil
}

func init() {
	core.Register(&core.Check{ID: "C16", Run: run, Replay: replay})
}
