// Package c16: only the entitled producer's block is accepted.
//
// Exhaustive bounded enumeration over four consensus plugins, each built by its
// public constructor over a stub LedgerRely / network / contract manager and
// asked through consensus.NewPluggableConsensus (the object the miner calls):
//
//	tdpos.go   slot schedule (structure) and CheckMinerMatch (acceptance), every ms
//	xpoa.go    the same for the XPoA schedule
//	single.go  proposer x signature x public-key combinations
//	pow.go     compact target codec, IsProofed, CheckMinerMatch over stub chains
//	powhist.go CheckMinerMatch under every short call history of one instance
//	xpoaset.go XPoA CheckMinerMatch across a validator-set change (sizes differ too)
//	powfork.go PoW CheckMinerMatch for blocks on a side branch at a retarget height
//
// Oracles. TDPoS / XPoA: structural (triples non-decreasing, every cell has
// block_num consecutive slots, every term all positions in order, nothing out
// of range, alternate / term distances) plus acceptance: accepted iff the
// candidate is validators[pos(t)] and t lies in a slot; with an unresolvable
// validator set, before the TDPoS init time, or when the schedule names no
// slot, nobody may be accepted. single: accepted iff miner, key and signature
// are all right. PoW is judged one-directionally (accepted implies ...): the
// prescribed bits of a height are what the implementation's own miner side
// (ProcessBeforeMiner) yields on that parent chain; accepted implies bits equal
// to them, hash not above their target, timestamp not before the parent's,
// signature valid. The retarget formula (clamp x4 / :4, floor at the max
// target) is checked on the ancestors the implementation reads; that it reads
// them one block later than Bitcoin's pow.cpp is an evidence counter only
// (pow.lags_bitcoin_rule_by_one_block). pow.history adds the call history as a
// dimension: chains built by the reference formula across two retarget heights,
// one instance constructed at every tip height (start-up and restart path) and
// driven through every fixed-length sequence over {ProcessBeforeMiner,
// CheckMinerMatch on all candidates on the tip / beside the tip, confirm the
// next block}; every verdict is judged by the reference formula on the block's
// own ancestors and must equal the verdict of a baseline history (up since
// genesis, mining round just started) - the target is prescribed by the chain,
// not by what the instance happened to do before. Panics of the constructor on
// the restart path are evidence (pow.history.panic_observations), not verdicts.
//
// xpoa.setchange makes the validator set a function of the block's height: the
// real editValidates kernel method writes a new set (same size, grown, shrunk)
// into a block of a stub chain with per-block snapshots; candidates before / at
// / after the activation height are judged by a node whose own mining set is
// the old or the new one; accepted iff the proposer is the one the schedule of
// the set in force for that height names. pow.fork puts a side branch with its
// own timestamps beside the trunk: a candidate at a retarget height is judged
// by the reference formula over ITS OWN ancestors, and its verdict must equal
// the one of a node that has the candidate's chain as trunk.
//
// Nothing is sampled: every domain is an explicit finite list iterated in index
// order; goroutines only partition the list.
package c16
