// Package c16: only the entitled producer's block is accepted.
//
// Exhaustive bounded enumeration over four consensus plugins, each built by its
// public constructor over a stub LedgerRely / network / contract manager and
// asked through consensus.NewPluggableConsensus (the object the miner calls):
//
//	tdpos.go   slot schedule (structure) and CheckMinerMatch (acceptance), every ms
//	xpoa.go    the same for the XPoA schedule
//	single.go  proposer x signature x public-key combinations
//	pow.go     compact target codec, IsProofed, CheckMinerMatch over stub chains
//
// Oracles. TDPoS / XPoA: structural (triples non-decreasing, every cell has
// block_num consecutive slots, every term all positions in order, nothing out
// of range, alternate / term distances) plus acceptance: accepted iff the
// candidate is validators[pos(t)] and t lies in a slot; with an unresolvable
// validator set, before the TDPoS init time, or when the schedule names no
// slot, nobody may be accepted. single: accepted iff miner, key and signature
// are all right. PoW is judged one-directionally (accepted implies ...): a
// stricter implementation never alarms; the reference retarget is the rule
// pow.go cites (Bitcoin pow.cpp: all values from the parent), applied to the
// chain the implementation's own miner built.
//
// Nothing is sampled: every domain is an explicit finite list iterated in index
// order; goroutines only partition the list.
package c16
