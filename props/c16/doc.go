// Package c16 holds the check for property C16.
package c16
