package c16

import (
	"crypto/sha256"
	"encoding/json"
	"fmt"
	"math/big"

	"verif/core"
	"verif/world"

	"github.com/xuperchain/xupercore/bcs/consensus/pow"
	xledger "github.com/xuperchain/xupercore/bcs/ledger/xledger/ledger"
	lpb "github.com/xuperchain/xupercore/bcs/ledger/xledger/xldgpb"
	"github.com/xuperchain/xupercore/kernel/consensus/def"
)

// ------------------------------------------------------- reference compact codec

var (
	big0    = big.NewInt(0)
	bigNeg1 = big.NewInt(-1)
	max256  = new(big.Int).Sub(new(big.Int).Lsh(big.NewInt(1), 256), big.NewInt(1))
)

// refDecode: value = mantissa * 256^(exp-3) (floor), mantissa = low 23 bits;
// negative iff the 0x00800000 bit is set on a non-zero word; overflow iff the
// value does not fit 256 bits.
func refDecode(c uint32) (v *big.Int, neg, ovf bool) {
	exp := uint(c >> 24)
	mant := uint64(c & 0x007fffff)
	word := mant
	if exp <= 3 {
		word = mant >> (8 * (3 - exp))
		v = new(big.Int).SetUint64(word)
	} else {
		v = new(big.Int).SetUint64(mant)
		v.Mul(v, new(big.Int).Exp(big.NewInt(256), big.NewInt(int64(exp-3)), nil))
	}
	neg = word != 0 && c&0x00800000 != 0
	ovf = v.BitLen() > 256
	return
}

// refEncode: the canonical compact form of v (top three bytes, moved down one
// byte when the sign bit would be set).
func refEncode(v *big.Int) uint32 {
	size := (v.BitLen() + 7) / 8
	var m uint32
	if size <= 3 {
		m = uint32(v.Uint64()) << (8 * uint(3-size))
	} else {
		q := new(big.Int).Div(v, new(big.Int).Exp(big.NewInt(256), big.NewInt(int64(size-3)), nil))
		m = uint32(q.Uint64())
	}
	if m&0x00800000 != 0 {
		m >>= 8
		size++
	}
	return m | uint32(size)<<24
}

// target as the oracle uses it: -1 when no hash can satisfy the encoding.
func refTarget(c uint32) *big.Int {
	v, neg, _ := refDecode(c)
	if neg {
		return bigNeg1
	}
	return v
}

var quickMantissas = []uint32{0, 1, 0x7f, 0x80, 0xff, 0x100, 0xffff, 0x10000, 0x7fffff, 0x800000, 0x800001, 0xffffff}

type compactCase struct {
	Part    string `json:"part"`
	Compact uint32 `json:"compact"`
}

func compactOne(c uint32, o *outcome, neighbours bool) {
	cs := map[string]interface{}{"part": "pow.compact", "compact": c}
	want, wneg, wovf := refDecode(c)
	var got *big.Int
	var gneg, govf bool
	pan := func() (p string) {
		defer func() {
			if r := recover(); r != nil {
				p = fmt.Sprint(r)
			}
		}()
		got, gneg, govf = pow.SetCompact(c)
		return ""
	}()
	o.counts["decodes"]++
	if pan != "" {
		o.bad("c16.pow.compact_panic", fmt.Sprintf("SetCompact(%#08x) panicked: %s", c, pan), cs, "a value", "panic")
		return
	}
	if got.Cmp(want) != 0 {
		o.bad("c16.pow.compact_decode", fmt.Sprintf("SetCompact(%#08x) = %s", c, got.Text(16)), cs, want.Text(16), got.Text(16))
	}
	if wneg && !gneg {
		o.bad("c16.pow.compact_negative_missed", fmt.Sprintf("SetCompact(%#08x) does not flag the negative encoding", c), cs, "negative", "not negative")
	}
	if wovf && !govf {
		o.bad("c16.pow.compact_overflow_missed", fmt.Sprintf("SetCompact(%#08x) does not flag the value above 2^256", c), cs, "overflow", "no overflow")
	}
	if gneg && !wneg {
		o.counts["stricter_negative_flag"]++
	}
	if govf && !wovf {
		o.counts["stricter_overflow_flag"]++
	}
	o.distinct[fmt.Sprintf("compact|exp<=3:%v|zero:%v|neg:%v|ovf:%v|codeovf:%v", c>>24 <= 3, want.Sign() == 0, wneg, wovf, govf)] = true
	// encoding of the decoded value and (quick tier, and on byte boundaries) its neighbours
	for d := int64(-1); d <= 1; d++ {
		if d != 0 && !neighbours {
			continue
		}
		v := new(big.Int).Add(want, big.NewInt(d))
		if v.Sign() < 0 {
			continue
		}
		wc := refEncode(v)
		gc, ok := pow.GetCompact(v)
		o.counts["encodes"]++
		if !ok || gc != wc {
			o.bad("c16.pow.compact_encode", fmt.Sprintf("GetCompact(%s) = %#08x ok=%v", v.Text(16), gc, ok), map[string]interface{}{"part": "pow.compact", "compact": c, "delta": d}, fmt.Sprintf("%#08x", wc), fmt.Sprintf("%#08x ok=%v", gc, ok))
		}
	}
}

func runCompact(rep *core.Report, tier core.Tier, distinct map[string]bool) int {
	outs := make([]*outcome, 256)
	parallel(256, func(e int) {
		o := newOutcome()
		outs[e] = o
		if rep.Expired() {
			return
		}
		if tier == core.Thorough {
			for _, hi := range []uint32{0x00, 0x7f, 0xff} {
				for lo := uint32(0); lo < 1<<16; lo++ {
					compactOne(uint32(e)<<24|hi<<16|lo, o, lo&0xff == 0 || lo&0xff == 0xff)
				}
			}
		} else {
			for _, m := range quickMantissas {
				compactOne(uint32(e)<<24|m, o, true)
			}
		}
		if e == 0x1d {
			v, _, _ := pow.SetCompact(0x1d00ffff)
			o.sample = map[string]interface{}{"part": "pow.compact", "compact": "0x1d00ffff", "decoded": v.Text(16)}
		}
	})
	merge(rep, "pow.compact.", outs, distinct)
	n := 0
	for _, o := range outs {
		n += o.counts["decodes"] + o.counts["encodes"]
	}
	return n
}

func replayCompact(raw json.RawMessage) (*outcome, error) {
	var c compactCase
	if err := json.Unmarshal(raw, &c); err != nil {
		return nil, err
	}
	o := newOutcome()
	compactOne(c.Compact, o, true)
	return o, nil
}

// ------------------------------------------------------------------- IsProofed

func powJSON(def, max uint32, gap, expected int32) string {
	return fmt.Sprintf(`{"defaultTarget":"%d","adjustHeightGap":"%d","expectedPeriod":"%d","maxTarget":"%d"}`, def, gap, expected, max)
}

func powInstance(cfg string) (*pow.PoWConsensus, error) {
	l := newStubLedger(genesisConf("pow", cfg))
	plainChain(l, 0, 1e18, world.Addr("M"))
	c := pow.NewPoWConsensus(newCtx(l, "M"), def.ConsensusConfig{ConsensusName: "pow", Config: cfg, StartHeight: 1})
	p, ok := c.(*pow.PoWConsensus)
	if !ok || p == nil {
		return nil, fmt.Errorf("NewPoWConsensus refused %s", cfg)
	}
	return p, nil
}

func hashBytes(h *big.Int) []byte {
	b := h.Bytes()
	out := make([]byte, 32)
	copy(out[32-len(b):], b)
	return out
}

type proofCase struct {
	Part    string `json:"part"`
	Max     uint32 `json:"max_target"`
	Compact uint32 `json:"compact"`
	Hash    string `json:"hash_hex"`
}

func isProofedOne(p *pow.PoWConsensus, maxT, c uint32, o *outcome, onlyHash string) {
	t, neg, ovf := refDecode(c)
	hashes := []*big.Int{new(big.Int).Sub(t, big.NewInt(1)), t, new(big.Int).Add(t, big.NewInt(1)), big0, max256}
	seen := map[string]bool{}
	for _, h := range hashes {
		if h.Sign() < 0 || h.Cmp(max256) > 0 || seen[h.Text(16)] {
			continue
		}
		seen[h.Text(16)] = true
		if onlyHash != "" && onlyHash != h.Text(16) {
			continue
		}
		got := false
		pan := func() (s string) {
			defer func() {
				if r := recover(); r != nil {
					s = fmt.Sprint(r)
				}
			}()
			got = p.IsProofed(hashBytes(h), c)
			return ""
		}()
		o.counts["evaluations"]++
		cs := map[string]interface{}{"part": "pow.isproofed", "max_target": maxT, "compact": c, "hash_hex": h.Text(16)}
		if pan != "" {
			o.bad("c16.pow.isproofed_panic", fmt.Sprintf("IsProofed(%s, %#08x) panicked: %s", h.Text(16), c, pan), cs, "true or false", "panic")
			continue
		}
		within := !neg && !ovf && h.Cmp(t) <= 0
		rel := "above"
		if h.Cmp(t) <= 0 {
			rel = "within"
		}
		o.distinct[fmt.Sprintf("isproofed|neg:%v|ovf:%v|%s|%v", neg, ovf, rel, got)] = true
		if got {
			o.counts["accepted"]++
			if !within {
				key := "c16.pow.accepts_hash_above_target"
				if neg || ovf {
					key = "c16.pow.accepts_invalid_target_encoding"
				}
				o.bad(key, fmt.Sprintf("IsProofed accepts hash %s for target bits %#08x (decoded %s, negative=%v overflow=%v)", h.Text(16), c, t.Text(16), neg, ovf), cs, "rejected", "accepted")
			}
		} else {
			o.counts["rejected"]++
			if within {
				o.counts["rejected_although_within_reference_target"]++
			}
		}
	}
}

var proofMaxTargets = []uint32{0, 0x1d00ffff}

func runIsProofed(rep *core.Report, tier core.Tier, distinct map[string]bool) int {
	outs := make([]*outcome, 256*len(proofMaxTargets))
	insts := make([]*pow.PoWConsensus, len(proofMaxTargets))
	for i, m := range proofMaxTargets {
		p, err := powInstance(powJSON(0x207fffff, m, 2, 16))
		if err != nil {
			rep.Violation(core.Violation{Key: "c16.pow.constructor_refused", Summary: err.Error(), Case: map[string]interface{}{"part": "pow.isproofed", "max_target": m}})
			return 0
		}
		insts[i] = p
	}
	mants := quickMantissas
	if tier == core.Thorough {
		mants = nil
		for hi := uint32(0); hi < 256; hi++ {
			for _, lo := range []uint32{0, 1, 0xff, 0x100, 0x7fff, 0xffff} {
				mants = append(mants, hi<<16|lo)
			}
		}
	}
	parallel(len(outs), func(i int) {
		o := newOutcome()
		outs[i] = o
		e, mi := uint32(i%256), i/256
		for _, m := range mants {
			isProofedOne(insts[mi], proofMaxTargets[mi], e<<24|m, o, "")
		}
	})
	merge(rep, "pow.isproofed.", outs, distinct)
	n := 0
	for _, o := range outs {
		n += o.counts["evaluations"]
	}
	return n
}

func replayIsProofed(raw json.RawMessage) (*outcome, error) {
	var c proofCase
	if err := json.Unmarshal(raw, &c); err != nil {
		return nil, err
	}
	p, err := powInstance(powJSON(0x207fffff, c.Max, 2, 16))
	if err != nil {
		return nil, err
	}
	o := newOutcome()
	isProofedOne(p, c.Max, c.Compact, o, c.Hash)
	return o, nil
}

// ------------------------------------------------- CheckMinerMatch over chains

type powCfg struct {
	Gap      int32  `json:"adjust_gap"`
	Expected int32  `json:"expected_period_s"`
	Default  uint32 `json:"default_target"`
	Max      uint32 `json:"max_target"`
	Pattern  []int  `json:"spacing_pattern"` // index into spacingQuarters per window of `gap` blocks
	Heights  int    `json:"heights"`
}

// legacy: the original xuperchain mode (defaultTarget <= 256, pow.go:89): bits = number of
// leading zero bits, a hash h satisfies bits iff h <= 2^(256-bits); retarget
// bits' = bitlen(2^bits * expected / actual) - 1, capped at maxTarget (the hardest allowed).
func (c powCfg) legacy() bool { return c.Default <= 256 }

// target of `bits` in the mode of c (-1: no hash satisfies it).
func (c powCfg) target(bits uint32) *big.Int {
	if c.legacy() {
		if bits > 256 {
			return bigNeg1 // never offered: uint(256-bits) wraps in IsProofed
		}
		return new(big.Int).Lsh(big.NewInt(1), uint(256-bits))
	}
	return refTarget(bits)
}

func (c powCfg) overflows(bits uint32) bool {
	if c.legacy() {
		return false
	}
	_, _, ovf := refDecode(bits)
	return ovf
}

// block spacings as quarters of the expected period: 1/4, 1/2, 1, 2, 8 times
var spacingQuarters = []int64{1, 2, 4, 8, 32}

type powCand struct {
	Bits    uint32 `json:"bits"`
	BitsIs  string `json:"bits_is"`
	Hash    string `json:"hash"`      // within | between | above
	Ts      string `json:"timestamp"` // after | equal | before
	Sig     string `json:"signature"` // valid | other_id | other_key | foreign_key
	Claimed int64  `json:"claimed_height"`
}

type powPoint struct {
	Height int     `json:"height"`
	Cand   powCand `json:"candidate"`
}

const powT0 = int64(1600000000) * 1e9

// powRef is the retarget formula for the block on top of chain[0..n-1]
// (chain[i] has height i; the block's true height is n) that claims height
// `claimed`: the decisions "before the first adjustment" and "adjust now" follow
// the claim, the ancestors are the real ones. back = 2: the ancestors the
// implementation reads (base = the parent's parent); back = 1: Bitcoin's
// pow.cpp (base = the parent), kept as an evidence counter only.
func powRef(chain []*lpb.InternalBlock, n, claimed int, c powCfg, back int) uint32 {
	gap := int(c.Gap)
	if claimed <= gap || n-back < 0 {
		return c.Default
	}
	base := chain[n-back]
	if claimed%gap != 0 {
		return uint32(base.TargetBits)
	}
	if n-back-(gap-1) < 0 {
		return c.Default
	}
	far := chain[n-back-(gap-1)]
	expected := int64(c.Expected) * int64(gap-1)
	actual := (base.Timestamp - far.Timestamp) / 1e9
	if actual < expected/4 {
		actual = expected / 4
	}
	if actual > expected*4 {
		actual = expected * 4
	}
	if c.legacy() {
		d := new(big.Int).Lsh(big.NewInt(1), uint(base.TargetBits))
		d.Mul(d, big.NewInt(expected))
		d.Div(d, big.NewInt(actual))
		nb := uint32(d.BitLen() - 1)
		if nb > c.Max {
			nb = c.Max
		}
		return nb
	}
	v, _, _ := refDecode(uint32(base.TargetBits))
	v.Mul(v, big.NewInt(actual))
	v.Div(v, big.NewInt(expected))
	floor, _, _ := refDecode(c.Max)
	if v.Cmp(floor) < 0 {
		return c.Max
	}
	return refEncode(v)
}

// mine searches nonces 0.. for a header hash in (lo, hi]. Ranges narrower than
// 2^-12 of the hash space are not attempted.
func mine(b *lpb.InternalBlock, lo, hi *big.Int, tries int32) bool {
	if new(big.Int).Sub(hi, lo).BitLen() < 256-12 {
		return false
	}
	h := new(big.Int)
	for n := int32(0); n < tries; n++ {
		b.Nonce = n
		id, err := xledger.MakeBlockID(b)
		if err != nil {
			return false
		}
		h.SetBytes(id)
		if h.Cmp(lo) > 0 && h.Cmp(hi) <= 0 {
			b.Blockid = id
			return true
		}
	}
	return false
}

const mineTries = 1 << 17

func powChainUnit(c powCfg, only *powPoint) *outcome {
	o := newOutcome()
	cfg := powJSON(c.Default, c.Max, c.Gap, c.Expected)
	l := newStubLedger(genesisConf("pow", cfg))
	gid := sha256.Sum256([]byte("c16-pow-genesis"))
	l.put(&lpb.InternalBlock{Version: 1, Height: 0, Blockid: gid[:], Timestamp: powT0, Proposer: []byte(world.Addr("M")), InTrunk: true})
	caseOf := func(p powPoint) map[string]interface{} {
		return map[string]interface{}{"part": "pow.chain", "cfg": c, "point": p}
	}
	pc, _, err := build(l, "M", "pow", cfg)
	if err != nil {
		o.bad("c16.pow.constructor_refused", err.Error(), caseOf(powPoint{}), "an instance", err.Error())
		return o
	}
	miner := world.Keys["M"]
	var trace []string
	for n := 1; n <= c.Heights; n++ {
		if only != nil && n > only.Height {
			break
		}
		parent := l.chain[n-1]
		w := (n - 1) / int(c.Gap)
		if w >= len(c.Pattern) {
			w = len(c.Pattern) - 1
		}
		spacing := spacingQuarters[c.Pattern[w]] * int64(c.Expected) * 1e9 / 4
		// evidence only: what Bitcoin's rule (all values from the parent) would give
		btc := powRef(l.chain, n, n, c, 1)
		// the retarget formula (clamp x4 / :4, floor at max target) on the ancestors the
		// implementation reads (it starts one block behind the parent)
		lag := powRef(l.chain, n, n, c, 2)
		// what the implementation's own miner would put into the next block
		_, st, err := pc.ProcessBeforeMiner(parent.Timestamp + spacing)
		var own struct {
			TargetBits uint32 `json:"targetBits"`
		}
		if err == nil {
			err = json.Unmarshal(st, &own)
		}
		if err != nil {
			o.bad("c16.pow.miner_storage", fmt.Sprintf("ProcessBeforeMiner at height %d: %v", n, err), caseOf(powPoint{Height: n}), "target bits", fmt.Sprint(err))
			return o
		}
		// PRESCRIBED bits: what the implementation's own miner side yields on this chain
		pre := own.TargetBits
		tP := c.target(pre)
		if c.overflows(pre) {
			tP = bigNeg1
		}
		tL := c.target(lag)
		tBtc := c.target(btc)
		if pre != btc {
			o.counts["lags_bitcoin_rule_by_one_block"]++
			if pre != lag {
				o.counts["differs_from_bitcoin_rule_otherwise"]++
			}
		}
		// the target every accepted hash must respect: the prescribed one, and the formula's
		tRef := tP
		if tL.Cmp(tRef) < 0 {
			tRef = tL
		}

		if only == nil || only.Height == n {
			// ---- candidate blocks of this height
			type bitsOpt struct {
				v    uint32
				name string
			}
			easier, harder := new(big.Int).Mul(c.target(pre), big.NewInt(2)), new(big.Int).Div(c.target(pre), big.NewInt(2))
			opts := []bitsOpt{{pre, "miner"}, {lag, "retarget_formula"}, {btc, "bitcoin_rule"}, {c.Default, "default"}, {c.Max, "max"}}
			if c.legacy() {
				if pre > 0 {
					opts = append(opts, bitsOpt{pre - 1, "twice_easier"})
				}
				opts = append(opts, bitsOpt{pre + 1, "twice_harder"}, bitsOpt{0, "zero_bits"})
			} else if easier.Sign() > 0 {
				opts = append(opts, bitsOpt{refEncode(easier), "twice_easier"}, bitsOpt{refEncode(harder), "twice_harder"})
			}
			seenBits := map[uint32]bool{}
			for _, bo := range opts {
				if seenBits[bo.v] {
					continue
				}
				seenBits[bo.v] = true
				if only != nil && only.Cand.Bits != bo.v {
					continue
				}
				tB := c.target(bo.v)
				if c.overflows(bo.v) {
					tB = bigNeg1 // an encoding above 2^256 is no valid target
				}
				lowT := tB
				if tRef.Cmp(lowT) < 0 {
					lowT = tRef
				}
				for _, tk := range []string{"after", "equal", "before"} {
					if only != nil && only.Cand.Ts != tk {
						continue
					}
					ts := parent.Timestamp + spacing
					switch tk {
					case "equal":
						ts = parent.Timestamp
					case "before":
						ts = parent.Timestamp - 1
					}
					for _, pubkey := range []string{"M", "X"} {
						for _, hk := range []string{"within", "between", "above"} {
							if only != nil && only.Cand.Hash != hk {
								continue
							}
							lo, hi := bigNeg1, lowT
							switch hk {
							case "between": // valid for the declared bits, above the prescribed target
								lo, hi = tRef, tB
							case "above":
								lo, hi = tB, max256
							}
							if hi.Cmp(lo) <= 0 {
								continue
							}
							b := &lpb.InternalBlock{Version: 1, Height: int64(n), PreHash: parent.Blockid, Timestamp: ts, TargetBits: int32(bo.v),
								Proposer: []byte(miner.Address), Pubkey: []byte(world.Keys[pubkey].PubJSON)}
							if !mine(b, lo, hi, mineTries) {
								o.counts["chain.candidates_not_mined"]++
								continue
							}
							hash := new(big.Int).SetBytes(b.Blockid)
							sigs := []string{"valid", "other_id", "other_key"}
							if pubkey == "X" {
								sigs = []string{"foreign_key"}
							}
							for _, sk := range sigs {
								if only != nil && only.Cand.Sig != sk {
									continue
								}
								var serr error
								switch sk {
								case "valid":
									b.Sign, serr = world.Crypto.SignECDSA(miner.Priv, b.Blockid)
								case "other_id":
									oid := append([]byte{}, b.Blockid...)
									oid[0] ^= 1
									b.Sign, serr = world.Crypto.SignECDSA(miner.Priv, oid)
								case "other_key":
									b.Sign, serr = world.Crypto.SignECDSA(world.Keys["D"].Priv, b.Blockid)
								case "foreign_key":
									b.Sign, serr = world.Crypto.SignECDSA(world.Keys["X"].Priv, b.Blockid)
								}
								if serr != nil {
									o.bad("c16.pow.harness", serr.Error(), caseOf(powPoint{Height: n}), "", "")
									continue
								}
								claims := []int64{int64(n)}
								if n > 1 {
									claims = append(claims, 1)
								}
								for _, claimed := range claims {
									if only != nil && only.Cand.Claimed != claimed {
										continue
									}
									cand := powCand{Bits: bo.v, BitsIs: bo.name, Hash: hk, Ts: tk, Sig: sk, Claimed: claimed}
									cb := *b
									cb.Height = claimed
									id := append([]byte{}, b.Blockid...)
									cb.Blockid = id
									got, pan := accept(pc, &cb)
									o.counts["chain.acceptance_calls"]++
									pt := caseOf(powPoint{Height: n, Cand: cand})
									if pan != "" {
										o.bad("c16.pow.check_panic", fmt.Sprintf("CheckMinerMatch panicked at height %d for %+v: %s", n, cand, pan), pt, "accept or reject", "panic "+pan)
										continue
									}
									res := "rej"
									if got {
										res = "acc"
										o.counts["chain.accepted"]++
									} else {
										o.counts["chain.rejected"]++
									}
									o.distinct[fmt.Sprintf("pow.chain%s|%s|%s|%s|%s|claim_true:%v|%s", modeTag(c), bo.name, hk, tk, sk, claimed == int64(n), res)] = true
									if !got {
										if bo.v == btc && bo.v != pre && hk == "within" && tk != "before" && sk == "valid" && claimed == int64(n) {
											o.counts["chain.bitcoin_rule_block_refused"]++
										}
										continue
									}
									desc := fmt.Sprintf("PoW %+v: on the chain the implementation itself mined (tip height %d), the block of height %d claiming height %d with bits %#08x (%s), hash %s, timestamp %s parent, signature %s was accepted",
										c, n-1, n, claimed, bo.v, bo.name, hk, tk, sk)
									if tk == "before" {
										o.bad("c16.pow.accepts_earlier_timestamp", desc, pt, "rejected: timestamp before the parent's", "accepted")
									}
									switch sk {
									case "other_id", "other_key":
										o.bad("c16.pow.accepts_bad_signature", desc, pt, "rejected: signature does not verify", "accepted")
									case "foreign_key":
										o.bad("c16.pow.accepts_foreign_key", desc, pt, "rejected: public key is not the proposer's", "accepted")
									}
									if hash.Cmp(tB) > 0 {
										o.bad("c16.pow.accepts_hash_above_target", desc+fmt.Sprintf(" (hash %s, declared target %s)", hash.Text(16), tB.Text(16)), pt, "rejected: hash above the block's own target", "accepted")
									}
									if bo.v != pre {
										key := "c16.pow.accepts_other_bits"
										if claimed != int64(n) && (bo.v == powRef(l.chain, n, int(claimed), c, 1) || bo.v == powRef(l.chain, n, int(claimed), c, 2)) {
											key = "c16.pow.claimed_height_selects_target"
										}
										o.bad(key, desc+fmt.Sprintf(" (the implementation's own miner side prescribes bits %#08x for height %d on this chain)", pre, n), pt,
											fmt.Sprintf("rejected: prescribed bits %#08x", pre), "accepted")
									}
									if hash.Cmp(tP) > 0 {
										o.bad("c16.pow.accepts_hash_above_prescribed_target", desc+fmt.Sprintf(" (hash %s is above the target %s of the prescribed bits %#08x)", hash.Text(16), tP.Text(16), pre), pt,
											"rejected: hash above the prescribed target", "accepted")
									}
									if hash.Cmp(tL) > 0 {
										o.bad("c16.pow.bits_not_prescribed", desc+fmt.Sprintf(" (hash %s is above the target %s = bits %#08x that the retarget formula, clamped x4 / :4, gives on the ancestors the implementation reads; the miner side yields %#08x)", hash.Text(16), tL.Text(16), lag, pre), pt,
											fmt.Sprintf("rejected: retarget gives bits %#08x", lag), "accepted")
									}
									if hash.Cmp(tBtc) > 0 {
										o.counts["chain.accepted_above_bitcoin_rule_target"]++ // evidence only
									}
								}
							}
						}
					}
				}
			}
		}

		// ---- extend the chain with the block the implementation's own miner produces
		nb := &lpb.InternalBlock{Version: 1, Height: int64(n), PreHash: parent.Blockid, Timestamp: parent.Timestamp + spacing, TargetBits: int32(own.TargetBits),
			Proposer: []byte(miner.Address), Pubkey: []byte(miner.PubJSON), InTrunk: true}
		tOwn := c.target(own.TargetBits)
		if !mine(nb, bigNeg1, tOwn, mineTries) {
			o.counts["chain.stopped_target_unreachable"]++
			break
		}
		nb.Sign, _ = world.Crypto.SignECDSA(miner.Priv, nb.Blockid)
		cp := *nb
		ok, _ := accept(pc, &cp)
		if !ok {
			o.counts["chain.stopped_own_block_refused"]++
			break
		}
		l.put(nb)
		o.counts["chain.blocks_built"]++
		trace = append(trace, fmt.Sprintf("%d:%08x/%08x/%08x", n, pre, lag, btc))
	}
	if only == nil {
		o.counts["chain.chains"]++
		if c.legacy() {
			o.counts["chain.chains_legacy_mode"]++
		}
		if c.Gap == 2 && len(c.Pattern) == 2 && c.Pattern[0] == 0 && c.Pattern[1] == 2 {
			o.sample = map[string]interface{}{"part": "pow.chain", "cfg": c, "height:miner_bits/retarget_formula_bits/bitcoin_rule_bits": trace}
		}
	}
	return o
}

func modeTag(c powCfg) string {
	if c.legacy() {
		return ".legacy"
	}
	return ""
}

func powChains(tier core.Tier) []powCfg {
	var out []powCfg
	maxes := []uint32{0x2001ffff}
	plen := 2
	if tier == core.Thorough {
		maxes = []uint32{0x2001ffff, 0x1e00ffff}
		plen = 3
	}
	for _, gap := range []int32{2, 3, 4} {
		for _, mx := range maxes {
			n := 1
			for i := 0; i < plen; i++ {
				n *= len(spacingQuarters)
			}
			for k := 0; k < n; k++ {
				pat := make([]int, plen)
				x := k
				for i := plen - 1; i >= 0; i-- {
					pat[i] = x % len(spacingQuarters)
					x /= len(spacingQuarters)
				}
				out = append(out, powCfg{Gap: gap, Expected: 16, Default: 0x2007ffff, Max: mx, Pattern: pat, Heights: (plen+1)*int(gap) + 2})
			}
		}
	}
	// the legacy leading-zero-bits mode: start at 3 / 5 zero bits, cap at 6 / 9 (the cap is reached by
	// two fast windows from 3 and from 5; slow windows go down to 0 bits from 3)
	legacy := [][2]uint32{{3, 6}}
	if tier == core.Thorough {
		legacy = [][2]uint32{{3, 6}, {5, 9}, {1, 256}}
	}
	for _, gap := range []int32{2, 3, 4} {
		for _, dm := range legacy {
			n := 1
			for i := 0; i < plen; i++ {
				n *= len(spacingQuarters)
			}
			for k := 0; k < n; k++ {
				pat := make([]int, plen)
				x := k
				for i := plen - 1; i >= 0; i-- {
					pat[i] = x % len(spacingQuarters)
					x /= len(spacingQuarters)
				}
				out = append(out, powCfg{Gap: gap, Expected: 16, Default: dm[0], Max: dm[1], Pattern: pat, Heights: (plen+1)*int(gap) + 2})
			}
		}
	}
	return out
}

func runPowChains(rep *core.Report, tier core.Tier, distinct map[string]bool) int {
	cfgs := powChains(tier)
	outs := make([]*outcome, len(cfgs))
	parallel(len(cfgs), func(i int) {
		if rep.Expired() {
			return
		}
		outs[i] = powChainUnit(cfgs[i], nil)
	})
	merge(rep, "pow.", outs, distinct)
	n := 0
	for _, o := range outs {
		if o != nil {
			n += o.counts["chain.acceptance_calls"]
		}
	}
	rep.Set("pow.chain.box", fmt.Sprintf("%d stub chains (adjust gap 2..4 x %d-window spacing patterns over {1/4,1/2,1,2,8} x expected x {Bitcoin-style compact targets with two floors; legacy leading-zero-bits mode with (default, cap) bits (3,6) [thorough also (5,9), (1,256)]}), each grown block by block with the implementation's own miner bits; "+
		"at every height candidates = bits {miner-side (prescribed), retarget formula, Bitcoin rule, default, max, twice easier, twice harder} x hash {within, between prescribed and declared target, above} x timestamp {after, equal, 1 ns before parent} x signature {valid, other id, other key, foreign public key} x claimed height {true, 1}", len(cfgs), len(cfgs[0].Pattern)))
	return n
}

func replayPowChain(raw json.RawMessage) (*outcome, error) {
	var cs struct {
		Cfg   powCfg   `json:"cfg"`
		Point powPoint `json:"point"`
	}
	if err := json.Unmarshal(raw, &cs); err != nil {
		return nil, err
	}
	if cs.Point.Height < 1 {
		return nil, fmt.Errorf("pow.chain case without height")
	}
	return powChainUnit(cs.Cfg, &cs.Point), nil
}
