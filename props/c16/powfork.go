package c16

import (
	"crypto/sha256"
	"encoding/json"
	"fmt"
	"math/big"

	"verif/core"
	"verif/world"

	"github.com/xuperchain/xupercore/bcs/ledger/xledger/state"
	lpb "github.com/xuperchain/xupercore/bcs/ledger/xledger/xldgpb"
)

// ------------------------------------------- PoW: the judged block sits on a FORK
//
// pow.chain / pow.history judge blocks whose ancestors are all on the local
// trunk. Here the ledger holds a trunk AND a side branch that leaves it after
// the common block of height `fork` and whose blocks arrive at another pace, so
// that the two histories may prescribe different targets at the retarget height
// R. Both chains are built with the reference retarget formula (powRef) over
// their OWN ancestors; trunk blocks are addressable by height and by id, branch
// blocks by id only. Enumerated:
//
//	chains      adjust gap x trunk spacing pattern x branch spacing x R x fork
//	            height 0..R-2 (above, at and below the start of the retarget
//	            window, which is the block of height R-1-gap)
//	node        the trunk's tip has height R-1 (both candidates' parents are
//	            tips of equal height) or R (the branch is behind) x the
//	            instance did / did not just start a mining round
//	            (ProcessBeforeMiner); the instance is up since genesis and
//	            confirmed every trunk block
//	candidate   of height R on the branch's block R-1 and (control) on the
//	            trunk's block R-1; bits {prescribed by its own ancestors,
//	            prescribed by the other history, the formula over its own
//	            ancestors with the window start / the window end taken from the
//	            other history, parent's, default} x hash {within both targets,
//	            between prescribed and declared, above both}
//
// Oracles: absolute - accepted implies bits == what the reference formula gives
// over the candidate's OWN ancestors and hash <= that target; differential - the
// verdict equals the one of a node for which the candidate's chain IS the trunk
// (same block, same ancestors: which chain the node has as trunk has no say).

type forkCfg struct {
	powCfg
	Branch   int `json:"branch_spacing"` // index into spacingQuarters
	Retarget int `json:"retarget_height"`
	Fork     int `json:"fork_height"` // height of the last common block
}

type forkPoint struct {
	Tip    int      `json:"trunk_tip"`
	Prep   string   `json:"prepared"` // "" | "M": ProcessBeforeMiner just before the checks
	Parent string   `json:"parent"`   // branch | trunk
	Cand   histCand `json:"candidate"`
}

type forkCand struct {
	builtCand
	parent string
	pre    uint32
	base   int8 // verdict of the node for which the candidate's chain is the trunk
}

type forkUnit struct {
	cfg    forkCfg
	conf   string
	trunk  []*lpb.InternalBlock // heights 0..R
	branch []*lpb.InternalBlock // heights 0..R-1 (0..fork shared with the trunk)
	cands  []forkCand
}

func forkSigned(b *lpb.InternalBlock, key string) {
	b.Sign, _ = world.Crypto.SignECDSA(world.Keys[key].Priv, b.Blockid)
}

func buildForkUnit(c forkCfg, o *outcome) *forkUnit {
	u := &forkUnit{cfg: c, conf: powJSON(c.Default, c.Max, c.Gap, c.Expected)}
	R := c.Retarget
	gid := sha256.Sum256([]byte("c16-pow-genesis"))
	u.trunk = []*lpb.InternalBlock{{Version: 1, Height: 0, Blockid: gid[:], Timestamp: powT0, Proposer: []byte(world.Addr("M")), InTrunk: true}}
	grow := func(chain []*lpb.InternalBlock, n int, spacing int64, miner string) []*lpb.InternalBlock {
		parent := chain[n-1]
		pre := powRef(chain, n, n, c.powCfg, 2)
		k := world.Keys[miner]
		nb := &lpb.InternalBlock{Version: 1, Height: int64(n), PreHash: parent.Blockid, Timestamp: parent.Timestamp + spacing, TargetBits: int32(pre),
			Proposer: []byte(k.Address), Pubkey: []byte(k.PubJSON)}
		if !mine(nb, bigNeg1, validTarget(pre), mineTries) {
			return nil
		}
		forkSigned(nb, miner)
		return append(chain, nb)
	}
	for n := 1; n <= R; n++ {
		if u.trunk = grow(u.trunk, n, histSpacing(c.powCfg, n), "M"); u.trunk == nil {
			o.counts["fork.chain_stopped_target_unreachable"]++
			return nil
		}
		u.trunk[n].InTrunk = true
	}
	u.branch = append([]*lpb.InternalBlock{}, u.trunk[:c.Fork+1]...)
	bs := spacingQuarters[c.Branch] * int64(c.Expected) * 1e9 / 4
	for n := c.Fork + 1; n <= R-1; n++ {
		// another miner: a branch block is never the trunk's block of that height
		if u.branch = grow(u.branch, n, bs, "D"); u.branch == nil {
			o.counts["fork.chain_stopped_target_unreachable"]++
			return nil
		}
	}
	ws := R - 1 - int(c.Gap) // start of the retarget window
	for _, side := range []string{"branch", "trunk"} {
		own, other := u.branch, u.trunk[:R]
		spacing := bs
		if side == "trunk" {
			own, other = u.trunk[:R], u.branch
			spacing = histSpacing(c.powCfg, R)
		}
		parent := own[R-1]
		pre := powRef(own, R, R, c.powCfg, 2)
		tP := validTarget(pre)
		mixStart := append([]*lpb.InternalBlock{}, own...)
		mixStart[ws] = other[ws]
		mixEnd := append([]*lpb.InternalBlock{}, own...)
		mixEnd[R-2] = other[R-2]
		type bitsOpt struct {
			v    uint32
			name string
		}
		opts := []bitsOpt{{pre, "prescribed"}, {powRef(other, R, R, c.powCfg, 2), "prescribed_by_the_other_history"},
			{powRef(mixStart, R, R, c.powCfg, 2), "own_history_with_window_start_of_the_other"},
			{powRef(mixEnd, R, R, c.powCfg, 2), "own_history_with_window_end_of_the_other"},
			{uint32(parent.TargetBits), "parent"}, {c.Default, "default"}}
		seen := map[uint32]bool{}
		for _, bo := range opts {
			if seen[bo.v] {
				continue
			}
			seen[bo.v] = true
			tB := validTarget(bo.v)
			lowT, highT := tB, tP
			if lowT.Cmp(highT) > 0 {
				lowT, highT = highT, lowT
			}
			for _, hk := range []string{"within", "between", "above"} {
				lo, hi := bigNeg1, lowT
				switch hk {
				case "between":
					lo, hi = lowT, highT
				case "above":
					lo, hi = highT, max256
				}
				if hi.Cmp(lo) <= 0 {
					continue
				}
				m := world.Keys["M"]
				b := &lpb.InternalBlock{Version: 1, Height: int64(R), PreHash: parent.Blockid, Timestamp: parent.Timestamp + spacing, TargetBits: int32(bo.v),
					Proposer: []byte(m.Address), Pubkey: []byte(m.PubJSON)}
				if !mine(b, lo, hi, mineTries) {
					o.counts["fork.candidates_not_mined"]++
					continue
				}
				forkSigned(b, "M")
				hash := new(big.Int).SetBytes(b.Blockid)
				u.cands = append(u.cands, forkCand{parent: side, pre: pre, base: -1, builtCand: builtCand{
					spec: histCand{Bits: bo.v, BitsIs: bo.name, Hash: hk, Ts: "after", Sig: "valid"}, blk: b, hash: hash, tB: tB,
					okBits: bo.v == pre, okHash: hash.Cmp(tP) <= 0, okTs: true, okSig: true}})
				o.counts["fork.candidates_built"]++
			}
		}
	}
	return u
}

// ledgerFor: a node that is up since genesis; `trunk` blocks 1..tip are put into
// the ledger and confirmed one by one, `side` blocks are known by id only.
func (u *forkUnit) history(trunk []*lpb.InternalBlock, tip int, side []*lpb.InternalBlock, prep string, o *outcome, fn func(check func(b *lpb.InternalBlock) (bool, string))) bool {
	l := newStubLedger(genesisConf("pow", u.conf))
	l.put(trunk[0])
	inst, pan, err := histInstance(l, u.conf)
	if pan != "" || err != nil {
		o.counts["fork.constructor_failed"]++
		return false
	}
	defer inst.Stop()
	for _, b := range side {
		if _, ok := l.byID[string(b.Blockid)]; !ok {
			cp := *b
			cp.InTrunk = false
			l.byID[string(b.Blockid)] = &cp
		}
	}
	for k := 1; k <= tip; k++ {
		nb := *trunk[k]
		nb.InTrunk = true
		l.chain = append(l.chain, &nb)
		l.byID[string(nb.Blockid)] = &nb
		cb := nb
		if p := guarded(func() { _ = inst.ProcessConfirmBlock(state.NewBlockAgent(&cb)) }); p != "" {
			o.counts["fork.process_confirm_block_panics"]++
			return false
		}
	}
	if prep == "M" {
		if p := guarded(func() { _, _, _ = inst.ProcessBeforeMiner(trunk[tip].Timestamp + 1e9) }); p != "" {
			o.counts["fork.process_before_miner_panics"]++
			return false
		}
	}
	fn(func(b *lpb.InternalBlock) (bool, string) {
		cb := *b
		return accept(inst, &cb)
	})
	return true
}

// baselines: every candidate judged by the node for which the candidate's chain is the trunk.
func (u *forkUnit) baselines(o *outcome) {
	R := u.cfg.Retarget
	for _, side := range []string{"branch", "trunk"} {
		own, other := u.branch, u.trunk[:R]
		if side == "trunk" {
			own, other = u.trunk[:R], u.branch
		}
		u.history(own, R-1, other, "M", o, func(check func(*lpb.InternalBlock) (bool, string)) {
			for i := range u.cands {
				if u.cands[i].parent != side {
					continue
				}
				got, pan := check(u.cands[i].blk)
				if pan == "" {
					u.cands[i].base = 0
					if got {
						u.cands[i].base = 1
					}
				}
			}
		})
		o.counts["fork.baseline_histories"]++
	}
}

func (u *forkUnit) run(tip int, prep string, o *outcome, only *forkPoint) {
	c := u.cfg
	R := c.Retarget
	ws := R - 1 - int(c.Gap)
	ok := u.history(u.trunk, tip, u.branch, prep, o, func(check func(*lpb.InternalBlock) (bool, string)) {
		for i := range u.cands {
			fc := &u.cands[i]
			got, pan := check(fc.blk)
			if only != nil && (only.Parent != fc.parent || only.Cand != fc.spec) {
				continue
			}
			o.counts["fork.acceptance_calls"]++
			pt := forkPoint{Tip: tip, Prep: prep, Parent: fc.parent, Cand: fc.spec}
			bad := func(key, summary, expected, observed string) {
				o.bad(key, summary, map[string]interface{}{"part": "pow.fork", "cfg": c, "point": pt}, expected, observed)
			}
			where := "the trunk's block"
			if fc.parent == "branch" {
				where = fmt.Sprintf("the side branch (leaves the trunk after height %d, blocks every %d/4 of the expected period; retarget window starts at height %d) block", c.Fork, spacingQuarters[c.Branch], ws)
			}
			desc := fmt.Sprintf("PoW gap %d, expected %d s, trunk spacing pattern %v (quarters %v), trunk tip height %d, node up since genesis%s: the block of height %d on %s %d, with bits %#08x (%s; its own ancestors prescribe %#08x), hash %s",
				c.Gap, c.Expected, c.Pattern, spacingQuarters, tip, map[string]string{"": "", "M": ", ProcessBeforeMiner just called"}[prep], R, where, R-1, fc.spec.Bits, fc.spec.BitsIs, fc.pre, fc.spec.Hash)
			if pan != "" {
				bad("c16.pow.fork.check_panic", desc+": CheckMinerMatch panicked: "+pan, "accept or reject", "panic "+pan)
				continue
			}
			res := "rej"
			if got {
				res = "acc"
				o.counts["fork.accepted.on_"+fc.parent]++
			} else {
				o.counts["fork.rejected.on_"+fc.parent]++
			}
			rel := "fork_inside_window"
			if c.Fork < ws {
				rel = "fork_below_window_start"
			} else if c.Fork == ws {
				rel = "fork_at_window_start"
			}
			o.distinct[fmt.Sprintf("pow.fork|%s|%s|%s|%s|tip+%d|%s|%s", fc.parent, rel, fc.spec.BitsIs, fc.spec.Hash, tip-(R-1), prep, res)] = true
			if got {
				if fc.hash.Cmp(fc.tB) > 0 {
					bad("c16.pow.fork.accepts_hash_above_target", desc+" was accepted", "rejected: hash above the block's own target", "accepted")
				}
				if !fc.okBits {
					key := "c16.pow.fork.accepts_other_bits"
					switch fc.spec.BitsIs {
					case "prescribed_by_the_other_history":
						key = "c16.pow.fork.accepts_target_of_the_other_history"
					case "own_history_with_window_start_of_the_other", "own_history_with_window_end_of_the_other":
						key = "c16.pow.fork.accepts_target_mixed_from_two_histories"
					}
					bad(key, desc+" was accepted", fmt.Sprintf("rejected: the block's own ancestors prescribe bits %#08x", fc.pre), "accepted")
				}
				if !fc.okHash {
					bad("c16.pow.fork.accepts_hash_above_prescribed_target", desc+fmt.Sprintf(" was accepted (hash %s is above the target %s its own ancestors prescribe)", fc.hash.Text(16), validTarget(fc.pre).Text(16)),
						"rejected: hash above the prescribed target", "accepted")
				}
			}
			if fc.base >= 0 && got != (fc.base == 1) {
				word := map[bool]string{true: "accepted", false: "rejected"}
				bad("c16.pow.fork.verdict_depends_on_which_chain_is_the_trunk", desc+fmt.Sprintf(" was %s, but %s by a node that has the block's own chain as its trunk", word[got], word[!got]),
					word[!got]+" (same block, same ancestors)", word[got])
			}
		}
	})
	if ok {
		o.counts["fork.histories"]++
	}
}

type forkBox struct {
	gaps      []int32
	spacings  []int
	retargets int // judged retarget heights: 2*gap .. (1+retargets)*gap
	tips      []int
}

func forkBoxOf(tier core.Tier) forkBox {
	if tier == core.Thorough {
		return forkBox{gaps: []int32{2, 3, 4}, spacings: []int{0, 1, 2, 3, 4}, retargets: 2, tips: []int{0, 1}}
	}
	return forkBox{gaps: []int32{2, 3}, spacings: []int{0, 2, 4}, retargets: 1, tips: []int{0, 1}}
}

func (b forkBox) cfgs() []forkCfg {
	var out []forkCfg
	for _, gap := range b.gaps {
		for r := 2; r <= 1+b.retargets; r++ {
			R := r * int(gap)
			windows := r
			n := 1
			for i := 0; i < windows; i++ {
				n *= len(b.spacings)
			}
			for k := 0; k < n; k++ {
				pat := make([]int, windows)
				x := k
				for i := windows - 1; i >= 0; i-- {
					pat[i] = b.spacings[x%len(b.spacings)]
					x /= len(b.spacings)
				}
				for _, bsp := range b.spacings {
					for f := 0; f <= R-2; f++ {
						out = append(out, forkCfg{powCfg: powCfg{Gap: gap, Expected: 16, Default: 0x2007ffff, Max: 0x2001ffff, Pattern: pat, Heights: R}, Branch: bsp, Retarget: R, Fork: f})
					}
				}
			}
		}
	}
	return out
}

func runPowFork(rep *core.Report, tier core.Tier, distinct map[string]bool) int {
	box := forkBoxOf(tier)
	cfgs := box.cfgs()
	outs := make([]*outcome, len(cfgs))
	parallel(len(cfgs), func(i int) {
		if rep.Expired() {
			return
		}
		o := newOutcome()
		outs[i] = o
		c := cfgs[i]
		u := buildForkUnit(c, o)
		if u == nil {
			return
		}
		o.counts["fork.scenarios"]++
		R := c.Retarget
		preB, preT := powRef(u.branch, R, R, c.powCfg, 2), powRef(u.trunk[:R], R, R, c.powCfg, 2)
		if preB != preT {
			o.counts["fork.scenarios_where_the_two_histories_prescribe_different_targets"]++
			if c.Fork < R-1-int(c.Gap) {
				o.counts["fork.scenarios_where_they_differ_and_the_fork_is_below_the_window_start"]++
			}
		}
		u.baselines(o)
		for _, dt := range box.tips {
			for _, prep := range []string{"", "M"} {
				u.run(R-1+dt, prep, o, nil)
			}
		}
		if c.Gap == 2 && c.Fork == 0 && c.Branch == 4 && c.Pattern[0] == 0 && c.Pattern[1] == 0 {
			o.sample = map[string]interface{}{"part": "pow.fork", "cfg": c, "bits_prescribed_on_branch": fmt.Sprintf("%08x", preB), "bits_prescribed_on_trunk": fmt.Sprintf("%08x", preT), "candidates": len(u.cands)}
		}
	})
	merge(rep, "pow.", outs, distinct)
	n := 0
	for _, o := range outs {
		if o != nil {
			n += o.counts["fork.acceptance_calls"]
		}
	}
	rep.Set("pow.fork.box", fmt.Sprintf("%d fork scenarios: adjust gap %v x trunk spacing pattern (one of quarters %v per window) x branch spacing x judged retarget height R in {2*gap..%d*gap} x height of the last common block 0..R-2 "+
		"(inside, at and below the start R-1-gap of the retarget window); trunk and branch are built by the reference retarget formula over their own ancestors, trunk blocks served by height and id, branch blocks by id only; "+
		"node up since genesis, trunk tip height R-1+%v, with / without a preceding ProcessBeforeMiner; candidates of height R on the branch and on the trunk: bits {prescribed by own ancestors, prescribed by the other history, "+
		"own history with the window start / window end block of the other history, parent's, default} x hash {within, between, above}; judged absolutely (reference formula over the candidate's own ancestors) and against the node that has the candidate's chain as trunk",
		len(cfgs), box.gaps, func() (q []int64) {
			for _, s := range box.spacings {
				q = append(q, spacingQuarters[s])
			}
			return
		}(), 1+box.retargets, box.tips))
	return n
}

func replayPowFork(raw json.RawMessage) (*outcome, error) {
	var cs struct {
		Cfg   forkCfg   `json:"cfg"`
		Point forkPoint `json:"point"`
	}
	if err := json.Unmarshal(raw, &cs); err != nil {
		return nil, err
	}
	c := cs.Cfg
	R := c.Retarget
	if c.Gap < 2 || R < 2*int(c.Gap) || R%int(c.Gap) != 0 || R > 64 || c.Fork < 0 || c.Fork > R-2 || c.Branch < 0 || c.Branch >= len(spacingQuarters) || len(c.Pattern) == 0 {
		return nil, fmt.Errorf("pow.fork case: bad configuration %+v", c)
	}
	for _, p := range c.Pattern {
		if p < 0 || p >= len(spacingQuarters) {
			return nil, fmt.Errorf("pow.fork case: bad spacing pattern %v", c.Pattern)
		}
	}
	if cs.Point.Tip < R-1 || cs.Point.Tip > R {
		return nil, fmt.Errorf("pow.fork case: trunk tip %d", cs.Point.Tip)
	}
	scratch := newOutcome()
	u := buildForkUnit(c, scratch)
	if u == nil {
		return nil, fmt.Errorf("pow.fork case: chains could not be built")
	}
	u.baselines(scratch)
	o := newOutcome()
	u.run(cs.Point.Tip, cs.Point.Prep, o, &cs.Point)
	return o, nil
}
