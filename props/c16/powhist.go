package c16

import (
	"crypto/sha256"
	"encoding/json"
	"fmt"
	"math/big"
	"sort"
	"strings"
	"time"

	"verif/core"
	"verif/world"

	"github.com/xuperchain/xupercore/bcs/ledger/xledger/state"
	lpb "github.com/xuperchain/xupercore/bcs/ledger/xledger/xldgpb"
	"github.com/xuperchain/xupercore/kernel/consensus"
	"github.com/xuperchain/xupercore/kernel/consensus/base"
	"github.com/xuperchain/xupercore/kernel/consensus/def"
)

// --------------------------------- call histories on one long-lived PoW instance
//
// pow.chain asks CheckMinerMatch right after the instance's own ProcessBeforeMiner
// at every height. Here the HISTORY of calls is the enumerated dimension: one PoW
// plugin instance lives through a sequence over
//
//	M  ProcessBeforeMiner            (the local miner loop starts a round)
//	K  CheckMinerMatch(c) for every candidate c of height tip+1 (extends the tip),
//	   tip (competes with the tip) [, tip-1], in index order
//	P  the rightful block of height tip+1 is put into the ledger, then
//	   ProcessConfirmBlock           (what the node does when it confirms a block)
//
// started over a ledger whose tip has height s (s = 0: a node that is up since
// genesis; s > 1: the constructor's restart path). The rightful chain and the
// prescribed bits come from the reference retarget formula (powRef), never from
// the implementation. Oracles on every K:
//
//	absolute      accepted implies bits == prescribed by the chain's own history,
//	              hash <= that target, timestamp >= parent's, signature valid;
//	differential  the verdict equals the one the same candidate (same ancestors)
//	              gets from the baseline history: an instance that is up since
//	              genesis, confirmed every ancestor and has just started a mining
//	              round on the candidate's parent (P^(n-1) M K).
//
// A panic of the constructor (restart path), of M or of P ends the history and is
// counted as an observation; a panic of CheckMinerMatch is a violation.

type histCand struct {
	Bits   uint32 `json:"bits"`
	BitsIs string `json:"bits_is"`
	Hash   string `json:"hash"`      // within | between | above (relative to prescribed and declared target)
	Ts     string `json:"timestamp"` // after | equal | before
	Sig    string `json:"signature"` // valid | other_key
}

type histSpec struct {
	Start int    `json:"start_tip"` // the instance is constructed over the ledger with this tip height
	Calls string `json:"calls"`     // one letter per call: M | K | P
	Depth []int  `json:"k_depths"`  // a K asks the candidates of heights tip+1-d for d in k_depths, in this order
}

type histPoint struct {
	History histSpec `json:"history"`
	Step    int      `json:"step"`   // index of the judged K in History.Calls
	Height  int      `json:"height"` // height of the judged candidate (tip+1: on the tip, tip: sibling of the tip, ...)
	Cand    histCand `json:"candidate"`
}

type builtCand struct {
	spec   histCand
	blk    *lpb.InternalBlock
	hash   *big.Int
	tB     *big.Int // declared target (-1: no valid target)
	okBits bool
	okHash bool
	okTs   bool
	okSig  bool
	class  string // prefix of the distinct-case key
}

type histUnit struct {
	cfg     powCfg
	conf    string
	chain   []*lpb.InternalBlock // the rightful chain, index = height
	pre     []uint32             // prescribed bits by height (index 0 unused)
	cands   [][]builtCand        // candidates by height (on parent chain[height-1])
	base    [][]int8             // baseline verdict by height / candidate: 1 accepted, 0 rejected, -1 none
	heights int                  // candidates and rightful blocks exist for heights 1..heights
	depths  []int                // a K asks the candidates of heights tip+1-d, d in depths
}

func validTarget(bits uint32) *big.Int {
	if _, _, ovf := refDecode(bits); ovf {
		return bigNeg1
	}
	return refTarget(bits)
}

func histSpacing(c powCfg, n int) int64 {
	w := (n - 1) / int(c.Gap)
	if w >= len(c.Pattern) {
		w = len(c.Pattern) - 1
	}
	return spacingQuarters[c.Pattern[w]] * int64(c.Expected) * 1e9 / 4
}

// buildHistUnit grows the rightful chain with the reference formula and mines
// the candidate blocks of every height. Nothing of the implementation is asked.
func buildHistUnit(c powCfg, tsKinds []string, depths []int, o *outcome) *histUnit {
	u := &histUnit{cfg: c, conf: powJSON(c.Default, c.Max, c.Gap, c.Expected), depths: depths}
	gid := sha256.Sum256([]byte("c16-pow-genesis"))
	u.chain = []*lpb.InternalBlock{{Version: 1, Height: 0, Blockid: gid[:], Timestamp: powT0, Proposer: []byte(world.Addr("M")), InTrunk: true}}
	u.pre = []uint32{0}
	u.cands = [][]builtCand{nil}
	miner := world.Keys["M"]
	for n := 1; n <= c.Heights; n++ {
		parent := u.chain[n-1]
		spacing := histSpacing(c, n)
		pre := powRef(u.chain, n, n, c, 2)
		tP := validTarget(pre)
		// the rightful block first: without it the chain (and the candidates' point) ends here
		nb := &lpb.InternalBlock{Version: 1, Height: int64(n), PreHash: parent.Blockid, Timestamp: parent.Timestamp + spacing, TargetBits: int32(pre),
			Proposer: []byte(miner.Address), Pubkey: []byte(miner.PubJSON), InTrunk: true}
		if !mine(nb, bigNeg1, tP, mineTries) {
			o.counts["history.chain_stopped_target_unreachable"]++
			break
		}
		nb.Sign, _ = world.Crypto.SignECDSA(miner.Priv, nb.Blockid)

		type bitsOpt struct {
			v    uint32
			name string
		}
		opts := []bitsOpt{{pre, "prescribed"}}
		for k := n - 1; k >= 1; k-- { // every bits value this chain ever prescribed, nearest first
			name := "older_ancestor"
			if k == n-1 {
				name = "parent"
			}
			opts = append(opts, bitsOpt{uint32(u.chain[k].TargetBits), name})
		}
		opts = append(opts, bitsOpt{c.Default, "default"}, bitsOpt{c.Max, "floor"})
		if tP.Sign() > 0 {
			opts = append(opts, bitsOpt{refEncode(new(big.Int).Mul(tP, big.NewInt(2))), "twice_easier"}, bitsOpt{refEncode(new(big.Int).Div(tP, big.NewInt(2))), "twice_harder"})
		}
		var cs []builtCand
		seen := map[uint32]bool{}
		for _, bo := range opts {
			if seen[bo.v] {
				continue
			}
			seen[bo.v] = true
			tB := validTarget(bo.v)
			lowT, highT := tB, tP
			if lowT.Cmp(highT) > 0 {
				lowT, highT = highT, lowT
			}
			for _, tk := range tsKinds {
				ts := parent.Timestamp + spacing
				switch tk {
				case "equal":
					ts = parent.Timestamp
				case "before":
					ts = parent.Timestamp - 1
				}
				for _, hk := range []string{"within", "between", "above"} {
					lo, hi := bigNeg1, lowT
					switch hk {
					case "between":
						lo, hi = lowT, highT
					case "above":
						lo, hi = highT, max256
					}
					if hi.Cmp(lo) <= 0 {
						continue
					}
					b := &lpb.InternalBlock{Version: 1, Height: int64(n), PreHash: parent.Blockid, Timestamp: ts, TargetBits: int32(bo.v),
						Proposer: []byte(miner.Address), Pubkey: []byte(miner.PubJSON)}
					if !mine(b, lo, hi, mineTries) {
						o.counts["history.candidates_not_mined"]++
						continue
					}
					hash := new(big.Int).SetBytes(b.Blockid)
					for _, sk := range []string{"valid", "other_key"} {
						cb := *b
						var err error
						if sk == "valid" {
							cb.Sign, err = world.Crypto.SignECDSA(miner.Priv, cb.Blockid)
						} else {
							cb.Sign, err = world.Crypto.SignECDSA(world.Keys["D"].Priv, cb.Blockid)
						}
						if err != nil {
							o.bad("c16.pow.harness", err.Error(), nil, "", "")
							continue
						}
						cs = append(cs, builtCand{spec: histCand{Bits: bo.v, BitsIs: bo.name, Hash: hk, Ts: tk, Sig: sk}, blk: &cb, hash: hash, tB: tB,
							okBits: bo.v == pre, okHash: hash.Cmp(tP) <= 0, okTs: tk != "before", okSig: sk == "valid",
							class: fmt.Sprintf("pow.history|%s|%s|%s|%s|", bo.name, hk, tk, sk)})
						o.counts["history.candidates_built"]++
					}
				}
			}
		}
		if n > int(c.Gap) && n%int(c.Gap) == 0 {
			switch tP.Cmp(validTarget(uint32(parent.TargetBits))) {
			case 1:
				o.counts["history.retarget_heights.easier_than_parent"]++
			case -1:
				o.counts["history.retarget_heights.harder_than_parent"]++
			default:
				o.counts["history.retarget_heights.same_as_parent"]++
			}
		}
		u.chain = append(u.chain, nb)
		u.pre = append(u.pre, pre)
		u.cands = append(u.cands, cs)
		u.heights = n
	}
	return u
}

// histInstance is what a history is run on: the PoW plugin exactly as
// NewPluggableConsensus makes it from the genesis configuration (StartHeight 1,
// Index 0) and starts it; the check stops it when the history ends.
func histInstance(l *stubLedger, conf string) (inst base.ConsensusImplInterface, panicked string, err error) {
	defer func() {
		if r := recover(); r != nil {
			inst, panicked, err = nil, fmt.Sprint(r), nil
		}
	}()
	inst, err = consensus.NewPluginConsensus(newCtx(l, "M"), def.ConsensusConfig{ConsensusName: "pow", Config: conf, StartHeight: 1, Index: 0})
	if err == nil && inst == nil {
		err = fmt.Errorf("NewPoWConsensus returned nil")
	}
	if err != nil {
		return nil, "", err
	}
	inst.Start()
	return inst, "", nil
}

// pluggablePanics: does the node's real constructor (NewPluggableConsensus, as
// ChainRelyAgentImpl.CreateConsensus calls it) panic over this ledger too?
func pluggablePanics(l *stubLedger) (p bool) {
	defer func() {
		if r := recover(); r != nil {
			p = true
		}
	}()
	_, _ = consensus.NewPluggableConsensus(newCtx(l, "M"))
	return false
}

func guarded(f func()) (panicked string) {
	defer func() {
		if r := recover(); r != nil {
			panicked = fmt.Sprint(r)
		}
	}()
	f()
	return ""
}

func (u *histUnit) describeCalls(h histSpec) string {
	var parts []string
	tip := h.Start
	for i, op := range h.Calls {
		switch op {
		case 'M':
			parts = append(parts, fmt.Sprintf("%d: ProcessBeforeMiner (tip %d)", i, tip))
		case 'P':
			tip++
			parts = append(parts, fmt.Sprintf("%d: block %d put into the ledger + ProcessConfirmBlock", i, tip))
		case 'K':
			var hs []string
			for _, d := range h.Depth {
				if tip+1-d >= 1 {
					hs = append(hs, fmt.Sprint(tip+1-d))
				}
			}
			parts = append(parts, fmt.Sprintf("%d: CheckMinerMatch on every candidate of height %s (tip %d)", i, strings.Join(hs, ", "), tip))
		}
	}
	return fmt.Sprintf("instance constructed over the ledger with tip height %d, then calls %s", h.Start, strings.Join(parts, "; "))
}

// run executes one history. record (optional) receives every verdict;
// differential switches the comparison with the baseline on (the baseline runs
// themselves are judged absolutely only); only restricts the judged point
// (replay) - the calls are made all the same, they are part of the history.
func (u *histUnit) run(h histSpec, o *outcome, only *histPoint, differential bool, record func(step, height, ci int, got bool)) (constructed bool) {
	l := newStubLedger(genesisConf("pow", u.conf))
	for k := 0; k <= h.Start; k++ {
		l.put(u.chain[k])
	}
	inst, pan, err := histInstance(l, u.conf)
	if pan != "" {
		// observation, not a verdict on a block: the property speaks about accepted blocks
		o.counts["history.constructor_panics"]++
		key := fmt.Sprintf("gap %d, ledger tip height %d (next height %d)", u.cfg.Gap, h.Start, h.Start+1)
		o.distinct["obs|constructor_panic|"+key+": "+pan] = true
		if pluggablePanics(l) {
			o.counts["history.constructor_panics_also_through_NewPluggableConsensus"]++
		}
		return false
	}
	if err != nil {
		if h.Start <= 1 {
			o.bad("c16.pow.constructor_refused", err.Error(), map[string]interface{}{"part": "pow.history", "cfg": u.cfg, "point": histPoint{History: h, Step: -1}}, "an instance", err.Error())
		} else {
			o.counts["history.constructor_refused_on_restart"]++
		}
		return false
	}
	constructed = true
	defer inst.Stop()
	o.counts["history.histories"]++
	tip := h.Start
	freshTip := h.Start // the tip at which the instance last looked at the chain for its own mining (constructor / M)
	for step, op := range h.Calls {
		switch op {
		case 'M':
			var st []byte
			var merr error
			if p := guarded(func() { _, st, merr = inst.ProcessBeforeMiner(u.chain[tip].Timestamp + histSpacing(u.cfg, tip+1)) }); p != "" {
				o.counts["history.process_before_miner_panics"]++
				o.distinct["obs|process_before_miner_panic|"+p] = true
				return
			}
			o.counts["history.calls.M"]++
			var own struct {
				TargetBits uint32 `json:"targetBits"`
			}
			if merr == nil {
				merr = json.Unmarshal(st, &own)
			}
			if merr != nil || own.TargetBits != u.pre[tip+1] {
				o.counts["history.miner_bits_differ_from_reference"]++
			} else {
				o.counts["history.miner_bits_equal_reference"]++
			}
			freshTip = tip
		case 'P':
			tip++
			nb := *u.chain[tip]
			l.put(u.chain[tip])
			if p := guarded(func() { _ = inst.ProcessConfirmBlock(state.NewBlockAgent(&nb)) }); p != "" {
				o.counts["history.process_confirm_block_panics"]++
				o.distinct["obs|process_confirm_block_panic|"+p] = true
				return
			}
			o.counts["history.calls.P"]++
		case 'K':
			o.counts["history.calls.K"]++
			for _, d := range h.Depth {
				n := tip + 1 - d
				if n < 1 {
					continue
				}
				// what the instance last prepared for (constructor / M: height freshTip+1) against what is asked now
				stale := "prepared_for_this_height"
				if freshTip+1 != n {
					switch validTarget(u.pre[n]).Cmp(validTarget(u.pre[freshTip+1])) {
					case 0:
						stale = "prepared_for_other_height_same_target"
					case 1:
						stale = "prepared_for_other_height_target_now_easier"
					default:
						stale = "prepared_for_other_height_target_now_harder"
					}
				}
				stale = []string{"on_tip|", "sibling_of_tip|", "behind_tip|"}[d] + stale
				o.counts["history.K."+strings.Replace(stale, "|", ".", 1)]++
				u.probe(inst, h, step, tip, n, stale, o, only, differential, record)
			}
		}
	}
	return constructed
}

// probe asks CheckMinerMatch for every candidate of height n (in index order) and judges the verdicts.
func (u *histUnit) probe(inst base.ConsensusImplInterface, h histSpec, step, tip, n int, stale string, o *outcome, only *histPoint, differential bool, record func(step, height, ci int, got bool)) {
	for ci := range u.cands[n] {
		c := &u.cands[n][ci]
		cb := *c.blk
		got, cpan := accept(inst, &cb)
		if record != nil && cpan == "" {
			record(step, n, ci, got)
		}
		if only != nil && (only.Step != step || only.Height != n || only.Cand != c.spec) {
			continue
		}
		o.counts["history.acceptance_calls"]++
		bad := func(key, summary, expected, observed string) {
			o.bad(key, summary, map[string]interface{}{"part": "pow.history", "cfg": u.cfg, "point": histPoint{History: h, Step: step, Height: n, Cand: c.spec}}, expected, observed)
		}
		desc := func() string {
			return fmt.Sprintf("PoW %+v, %s: at call %d (ledger tip height %d) the block of height %d on the rightful block %d, with bits %#08x (%s; the chain's history prescribes %#08x), hash %s, timestamp %s parent, signature %s",
				u.cfg, u.describeCalls(h), step, tip, n, n-1, c.spec.Bits, c.spec.BitsIs, u.pre[n], c.spec.Hash, c.spec.Ts, c.spec.Sig)
		}
		if cpan != "" {
			bad("c16.pow.history.check_panic", desc()+": CheckMinerMatch panicked: "+cpan, "accept or reject", "panic "+cpan)
			continue
		}
		res := "|rej"
		if got {
			res = "|acc"
			o.counts["history.accepted"]++
		} else {
			o.counts["history.rejected"]++
		}
		o.distinct[c.class+stale+res] = true
		if got {
			if !c.okTs {
				bad("c16.pow.history.accepts_earlier_timestamp", desc()+" was accepted", "rejected: timestamp before the parent's", "accepted")
			}
			if !c.okSig {
				bad("c16.pow.history.accepts_bad_signature", desc()+" was accepted", "rejected: signature does not verify", "accepted")
			}
			if c.hash.Cmp(c.tB) > 0 {
				bad("c16.pow.history.accepts_hash_above_target", desc()+fmt.Sprintf(" was accepted (hash %s, declared target %s)", c.hash.Text(16), c.tB.Text(16)), "rejected: hash above the block's own target", "accepted")
			}
			if !c.okBits {
				bad("c16.pow.history.accepts_other_bits", desc()+" was accepted", fmt.Sprintf("rejected: prescribed bits %#08x", u.pre[n]), "accepted")
			}
			if !c.okHash {
				bad("c16.pow.history.accepts_hash_above_prescribed_target", desc()+fmt.Sprintf(" was accepted (hash %s is above the target %s of the prescribed bits)", c.hash.Text(16), validTarget(u.pre[n]).Text(16)),
					"rejected: hash above the prescribed target", "accepted")
			}
		}
		if differential && u.base[n][ci] >= 0 && got != (u.base[n][ci] == 1) {
			word := map[bool]string{true: "accepted", false: "rejected"}
			bad("c16.pow.verdict_depends_on_call_history", desc()+fmt.Sprintf(" was %s, but %s by an instance that is up since genesis, confirmed the same blocks 1..%d and just called ProcessBeforeMiner",
				word[got], word[!got], n-1), word[!got]+" (as on the baseline history: same block, same ancestors)", word[got])
		}
	}
}

// baselines fills u.base: P^(n-1) M K on an instance constructed over the genesis block only.
func (u *histUnit) baselines(o *outcome) {
	u.base = make([][]int8, u.heights+1)
	for n := 1; n <= u.heights; n++ {
		u.base[n] = make([]int8, len(u.cands[n]))
		for i := range u.base[n] {
			u.base[n][i] = -1
		}
		h := histSpec{Start: 0, Calls: strings.Repeat("P", n-1) + "MK", Depth: u.depths}
		u.run(h, o, nil, false, func(step, height, ci int, got bool) {
			if height == n {
				u.base[n][ci] = 0
				if got {
					u.base[n][ci] = 1
				}
			}
		})
		o.counts["history.baseline_histories"]++
	}
}

func histSequences(L int) []string {
	n := 1
	for i := 0; i < L; i++ {
		n *= 3
	}
	out := make([]string, 0, n)
	for k := 0; k < n; k++ {
		b := make([]byte, L)
		x := k
		for i := L - 1; i >= 0; i-- {
			b[i] = "MKP"[x%3]
			x /= 3
		}
		out = append(out, string(b))
	}
	return out
}

type histBox struct {
	gaps     []int32
	maxes    []uint32
	spacings []int // indexes into spacingQuarters
	windows  int
	length   int
	tsKinds  []string
	depths   []int // a K asks the candidates of heights tip+1-d
}

func histBoxOf(tier core.Tier) histBox {
	if tier == core.Thorough {
		return histBox{gaps: []int32{2, 3, 4}, maxes: []uint32{0x2001ffff, 0x1e00ffff}, spacings: []int{0, 1, 2, 3, 4}, windows: 2, length: 5, tsKinds: []string{"after", "equal", "before"}, depths: []int{0, 1, 2}}
	}
	return histBox{gaps: []int32{2, 3}, maxes: []uint32{0x2001ffff}, spacings: []int{0, 2, 4}, windows: 2, length: 4, tsKinds: []string{"after", "equal", "before"}, depths: []int{0, 1}}
}

func (b histBox) cfgs() []powCfg {
	var out []powCfg
	for _, gap := range b.gaps {
		for _, mx := range b.maxes {
			n := 1
			for i := 0; i < b.windows; i++ {
				n *= len(b.spacings)
			}
			for k := 0; k < n; k++ {
				pat := make([]int, b.windows)
				x := k
				for i := b.windows - 1; i >= 0; i-- {
					pat[i] = b.spacings[x%len(b.spacings)]
					x /= len(b.spacings)
				}
				// two retarget heights (2*gap, 3*gap) and one more block
				out = append(out, powCfg{Gap: gap, Expected: 16, Default: 0x2007ffff, Max: mx, Pattern: pat, Heights: (b.windows+1)*int(gap) + 1})
			}
		}
	}
	return out
}

func runPowHistory(rep *core.Report, tier core.Tier, distinct map[string]bool) int {
	box := histBoxOf(tier)
	cfgs := box.cfgs()
	seqs := histSequences(box.length)
	units := make([]*histUnit, len(cfgs))
	bouts := make([]*outcome, len(cfgs))
	t0 := time.Now()
	parallel(len(cfgs), func(i int) {
		if rep.Expired() {
			return
		}
		o := newOutcome()
		bouts[i] = o
		u := buildHistUnit(cfgs[i], box.tsKinds, box.depths, o)
		u.baselines(o)
		units[i] = u
		o.counts["history.units"]++
		o.counts["history.miner_bits_differ_from_reference"] += 0 // shown even when it never happens
		if i == 0 {
			var bits []string
			for n := 1; n <= u.heights; n++ {
				bits = append(bits, fmt.Sprintf("%d:%08x", n, u.pre[n]))
			}
			o.sample = map[string]interface{}{"part": "pow.history", "cfg": u.cfg, "height:prescribed_bits": bits, "candidates_by_height": func() (c []int) {
				for n := 1; n <= u.heights; n++ {
					c = append(c, len(u.cands[n]))
				}
				return
			}()}
		}
	})
	rep.Set("pow.history.build_and_baseline_wall_s", float64(time.Since(t0).Milliseconds())/1000)
	type item struct{ u, start int }
	var items []item
	for i, u := range units {
		if u == nil {
			continue
		}
		for s := 0; s < u.heights; s++ {
			items = append(items, item{i, s})
		}
	}
	outs := make([]*outcome, len(items))
	parallel(len(items), func(k int) {
		if rep.Expired() {
			return
		}
		o := newOutcome()
		outs[k] = o
		u := units[items[k].u]
		avail := u.heights - 1 - items[k].start // confirmations after which a K still has candidates
		for _, s := range seqs {
			if strings.Count(s, "P") > avail {
				o.counts["history.sequences_beyond_the_built_chain"]++
				continue
			}
			if !u.run(histSpec{Start: items[k].start, Calls: s, Depth: u.depths}, o, nil, true, nil) {
				// no instance can be had over this ledger: the same for every sequence
				o.counts["history.start_points_without_instance"]++
				break
			}
		}
	})
	all := append(append([]*outcome{}, bouts...), outs...)
	// panic / refusal observations are evidence, not distinct cases of the oracle
	var obs []string
	for _, o := range all {
		if o == nil {
			continue
		}
		for k := range o.distinct {
			if strings.HasPrefix(k, "obs|") {
				obs = append(obs, k[4:])
				delete(o.distinct, k)
			}
		}
	}
	merge(rep, "pow.", all, distinct)
	if len(obs) > 0 {
		sort.Strings(obs)
		uniq := obs[:0]
		for i, s := range obs {
			if i == 0 || s != obs[i-1] {
				uniq = append(uniq, s)
			}
		}
		rep.Set("pow.history.panic_observations", uniq)
	}
	n := 0
	for _, o := range all {
		if o != nil {
			n += o.counts["history.acceptance_calls"]
		}
	}
	rep.Set("pow.history.box", fmt.Sprintf("%d rightful chains built by the reference retarget formula (adjust gap %v x floor %x x %d-window spacing patterns over quarters %v of the expected period; heights 1..3*gap+1, so two retarget heights where the target goes easier, harder or stays), "+
		"one PoW plugin instance per history: constructed at every tip height 0..3*gap (0: up since genesis, >1: restart path), then every sequence of %d calls over {M ProcessBeforeMiner, K CheckMinerMatch on all candidates of the heights tip+1-d for d in %v (0: extends the tip, 1: competes with the tip, 2: one further back), P confirm the rightful block tip+1 (ledger put + ProcessConfirmBlock)} that stays on the built chain (%d sequences); "+
		"candidates of a height = bits {prescribed, parent's, older ancestors', default, floor, twice easier, twice harder} x hash {within both targets, between prescribed and declared, above both} x timestamp %v parent x signature {valid, other key}; "+
		"every verdict is judged absolutely (accepted implies bits, hash, timestamp, signature as the reference formula prescribes on the block's own ancestors) and against the baseline history P^(n-1) M K of an instance up since genesis (same block, same ancestors: same verdict)",
		len(cfgs), box.gaps, box.maxes, box.windows, func() (q []int64) {
			for _, s := range box.spacings {
				q = append(q, spacingQuarters[s])
			}
			return
		}(), box.length, box.depths, len(seqs), box.tsKinds))
	return n
}

func replayPowHistory(raw json.RawMessage) (*outcome, error) {
	var cs struct {
		Cfg   powCfg    `json:"cfg"`
		Point histPoint `json:"point"`
	}
	if err := json.Unmarshal(raw, &cs); err != nil {
		return nil, err
	}
	if cs.Point.Step < 0 || cs.Point.Step >= len(cs.Point.History.Calls) || cs.Point.History.Calls[cs.Point.Step] != 'K' {
		return nil, fmt.Errorf("pow.history case: step %d is not a K call of %q", cs.Point.Step, cs.Point.History.Calls)
	}
	scratch := newOutcome()
	// the candidate set of a height does not depend on the timestamp kinds' order; build all three
	for _, d := range cs.Point.History.Depth {
		if d < 0 || d > 2 {
			return nil, fmt.Errorf("pow.history case: depth %d", d)
		}
	}
	u := buildHistUnit(cs.Cfg, []string{"after", "equal", "before"}, cs.Point.History.Depth, scratch)
	if cs.Point.History.Start+strings.Count(cs.Point.History.Calls, "P") > u.heights-1 {
		return nil, fmt.Errorf("pow.history case: history leaves the built chain (heights 1..%d)", u.heights)
	}
	u.baselines(scratch)
	o := newOutcome()
	u.run(cs.Point.History, o, &cs.Point, true, nil)
	return o, nil
}
