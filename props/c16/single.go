package c16

import (
	"encoding/json"
	"fmt"

	"verif/core"
	"verif/world"

	_ "github.com/xuperchain/xupercore/bcs/consensus/single"
	xledger "github.com/xuperchain/xupercore/bcs/ledger/xledger/ledger"
	lpb "github.com/xuperchain/xupercore/bcs/ledger/xledger/xldgpb"
)

type singleCase struct {
	Part      string `json:"part"`
	Miner     string `json:"miner"`     // configured miner (key name)
	Proposer  string `json:"proposer"`  // key name of the block's proposer
	Pubkey    string `json:"pubkey"`    // key name whose public key the block carries
	Signature string `json:"signature"` // valid | other_id | other_key
}

// signedBlock builds a block proposed by `proposer`, carrying the public key of
// `pubkey`, signed as `sig` says. The block id is the real header hash.
func signedBlock(b *lpb.InternalBlock, proposer, pubkey, sig string) error {
	b.Proposer = []byte(world.Addr(proposer))
	b.Pubkey = []byte(world.Keys[pubkey].PubJSON)
	id, err := xledger.MakeBlockID(b)
	if err != nil {
		return err
	}
	b.Blockid = id
	switch sig {
	case "valid":
		b.Sign, err = world.Crypto.SignECDSA(world.Keys[pubkey].Priv, id)
	case "other_id":
		other := append([]byte{}, id...)
		other[0] ^= 1
		b.Sign, err = world.Crypto.SignECDSA(world.Keys[pubkey].Priv, other)
	case "other_key":
		b.Sign, err = world.Crypto.SignECDSA(world.Keys["D"].Priv, id)
	default:
		err = fmt.Errorf("unknown signature kind %q", sig)
	}
	return err
}

func singleUnit(c singleCase) *outcome {
	o := newOutcome()
	cfg := fmt.Sprintf(`{"miner":"%s","period":"3000"}`, world.Addr(c.Miner))
	l := newStubLedger(genesisConf("single", cfg))
	plainChain(l, 1, 1e18, world.Addr(c.Miner))
	pc, _, err := build(l, "M", "single", cfg)
	cs := map[string]interface{}{"part": "single", "miner": c.Miner, "proposer": c.Proposer, "pubkey": c.Pubkey, "signature": c.Signature}
	if err != nil {
		o.bad("c16.single.constructor_refused", err.Error(), cs, "an instance", err.Error())
		return o
	}
	b := &lpb.InternalBlock{Version: 1, Height: 2, PreHash: l.chain[1].Blockid, Timestamp: 1e18 + 3e9}
	if err := signedBlock(b, c.Proposer, c.Pubkey, c.Signature); err != nil {
		o.bad("c16.single.harness", err.Error(), cs, "", "")
		return o
	}
	got, pan := accept(pc, b)
	o.counts["acceptance_calls"]++
	if pan != "" {
		o.bad("c16.single.check_panic", fmt.Sprintf("CheckMinerMatch panicked for %+v: %s", c, pan), cs, "accept or reject", "panic "+pan)
		return o
	}
	good := c.Proposer == c.Miner && c.Pubkey == c.Proposer && c.Signature == "valid"
	res := "rej"
	if got {
		res = "acc"
		o.counts["accepted"]++
	} else {
		o.counts["rejected"]++
	}
	o.distinct[fmt.Sprintf("single|miner=%v|key=%v|sig=%s|%s", c.Proposer == c.Miner, c.Pubkey == c.Proposer, c.Signature, res)] = true
	if got && !good {
		key := "c16.single.accepts_bad_signature"
		switch {
		case c.Proposer != c.Miner:
			key = "c16.single.accepts_other_proposer"
		case c.Pubkey != c.Proposer:
			key = "c16.single.accepts_foreign_key"
		}
		o.bad(key, fmt.Sprintf("single (miner %s): block proposed by %s with the public key of %s and signature %s was accepted", c.Miner, c.Proposer, c.Pubkey, c.Signature), cs, "rejected", "accepted")
	}
	if !got && good {
		o.bad("c16.single.rejects_miner", fmt.Sprintf("single (miner %s): the miner's correctly signed block was refused", c.Miner), cs, "accepted", "rejected")
	}
	if good {
		o.sample = map[string]interface{}{"part": "single", "case": c, "accepted": got}
	}
	return o
}

func singleCases() []singleCase {
	var out []singleCase
	for _, miner := range []string{"M", "V1"} {
		other := "P"
		for _, prop := range []string{miner, other} {
			for _, pk := range []string{prop, "X"} {
				for _, sig := range []string{"valid", "other_id", "other_key"} {
					out = append(out, singleCase{Part: "single", Miner: miner, Proposer: prop, Pubkey: pk, Signature: sig})
				}
			}
		}
	}
	return out
}

func runSingle(rep *core.Report, tier core.Tier, distinct map[string]bool) int {
	cases := singleCases()
	outs := make([]*outcome, len(cases))
	parallel(len(cases), func(i int) { outs[i] = singleUnit(cases[i]) })
	merge(rep, "single.", outs, distinct)
	return len(cases)
}

func replaySingle(raw json.RawMessage) (*outcome, error) {
	var c singleCase
	if err := json.Unmarshal(raw, &c); err != nil {
		return nil, err
	}
	return singleUnit(c), nil
}
