package c16

import (
	"encoding/json"
	"fmt"
	"math"
	"strings"

	"verif/core"
	"verif/world"

	"github.com/xuperchain/xupercore/bcs/consensus/tdpos"
	lpb "github.com/xuperchain/xupercore/bcs/ledger/xledger/xldgpb"
)

// tdCfg is one TDPoS configuration of the box (times in ms, as in the genesis file).
type tdCfg struct {
	Period    int64 `json:"period"`
	BlockNum  int64 `json:"block_num"`
	Proposers int64 `json:"proposer_num"`
	Alternate int64 `json:"alternate_interval"`
	Term      int64 `json:"term_interval"`
	InitMs    int64 `json:"init_ms"`
	Terms     int64 `json:"terms"`
	// InBox: the documented precondition period <= alternate <= term holds.
	InBox bool `json:"precondition"`
}

func (c tdCfg) json(validators []string) string {
	q := make([]string, len(validators))
	for i, v := range validators {
		q[i] = `"` + v + `"`
	}
	return fmt.Sprintf(`{"timestamp":"%d","proposer_num":"%d","period":"%d","alternate_interval":"%d","term_interval":"%d","block_num":"%d","vote_unit_price":"1","init_proposer":{"1":[%s]}}`,
		c.InitMs*1e6, c.Proposers, c.Period, c.Alternate, c.Term, c.BlockNum, strings.Join(q, ","))
}

// ledger modes
const (
	modeYoung      = "young"             // tip height 1, candidate height 2: initial validators by height
	modeGrown      = "grown"             // tip height 5, candidate height 6: resolved through term / snapshot lookups
	modeNoHeight   = "unresolved.height" // grown, QueryBlockByHeight fails: validator set cannot be resolved
	modeGarbage    = "unresolved.record" // grown, the nominate record is unreadable and the tip is of another term
	capMs          = 400000
	candOutsider   = "outsider"
	candEmpty      = "empty"
	tdNominateKey  = "tdpos_0_nominate"
	tdBucket       = "$tdpos"
	xpoaBucket     = "$poa"
	xpoaValidators = "0_validates"
)

func validatorNames(n int64) []string {
	out := make([]string, n)
	for i := range out {
		out[i] = fmt.Sprintf("V%d", i+1)
	}
	return out
}

func addrOfCandidate(name string) string {
	switch name {
	case candOutsider:
		return world.Addr("X")
	case candEmpty:
		return ""
	}
	return world.Addr(name)
}

func tdposBox(tier core.Tier) []tdCfg {
	periods := []int64{1, 2, 3, 5}
	blockNums := []int64{1, 2, 3}
	props := []int64{1, 2, 3, 4}
	inits := []int64{7, 0}
	terms := int64(3)
	if tier == core.Thorough {
		periods = []int64{1, 2, 3, 5, 8, 13}
		blockNums = []int64{1, 2, 3, 4}
		props = []int64{1, 2, 3, 4, 5}
		inits = []int64{7, 0, 1559021720000}
		terms = 6
	}
	var out []tdCfg
	for _, p := range periods {
		for _, b := range blockNums {
			for _, n := range props {
				type at struct {
					a, t int64
					in   bool
				}
				var ats []at
				for _, a := range []int64{p, p + 1, 2 * p} {
					for _, t := range []int64{a, a + 1, 2 * a} {
						ats = append(ats, at{a, t, true})
					}
				}
				// outside the documented precondition
				if p-1 >= 1 {
					ats = append(ats, at{p - 1, p - 1, false}, at{p - 1, 2 * (p - 1), false})
				}
				for _, a := range []int64{p, 2 * p} {
					if a-1 >= 1 {
						ats = append(ats, at{a, a - 1, false})
					}
				}
				seen := map[[2]int64]bool{}
				for _, x := range ats {
					if seen[[2]int64{x.a, x.t}] {
						continue
					}
					seen[[2]int64{x.a, x.t}] = true
					for _, i := range inits {
						out = append(out, tdCfg{Period: p, BlockNum: b, Proposers: n, Alternate: x.a, Term: x.t, InitMs: i, Terms: terms,
							InBox: p <= x.a && x.a <= x.t})
					}
				}
			}
		}
	}
	return out
}

type slot struct{ term, pos, bp int64 }

func (s slot) less(o slot) bool {
	if s.term != o.term {
		return s.term < o.term
	}
	if s.pos != o.pos {
		return s.pos < o.pos
	}
	return s.bp < o.bp
}

func (s slot) String() string { return fmt.Sprintf("(term %d, pos %d, slot %d)", s.term, s.pos, s.bp) }

type tdPoint struct {
	Kind      string `json:"kind"` // structure | acceptance
	Mode      string `json:"mode,omitempty"`
	TMs       int64  `json:"t_ms"` // structure: the millisecond
	TNs       int64  `json:"t_ns"` // acceptance: the block's timestamp
	Candidate string `json:"candidate,omitempty"`
}

// dkey is one distinct (cell kind, candidate class, outcome) combination.
type dkey struct {
	kind, class string
	acc         bool
}

// instant is one block timestamp with what the schedule says there.
type instant struct {
	ns   int64
	s    slot
	edge bool // outside the enumerated terms: negative, pre-epoch and extreme values
}

func fmtNs(ns int64) string {
	if ns%1e6 == 0 {
		return fmt.Sprintf("%d ms", ns/1e6)
	}
	return fmt.Sprintf("%d ns", ns)
}

// edgeTimes: every millisecond of a window of w ms before zero, and the extremes.
func edgeTimes(w int) []int64 {
	var out []int64
	for t := -int64(w); t < 0; t++ {
		out = append(out, t*1e6)
	}
	return append(out, -1, -999999, math.MinInt64, math.MinInt64+1, math.MaxInt64, math.MaxInt64-999999)
}

func tdLedger(c tdCfg, mode string, validators []string) *stubLedger {
	name := "tdpos"
	l := newStubLedger(genesisConf(name, c.json(validators)))
	if mode == modeYoung {
		plainChain(l, 1, c.InitMs*1e6, validators[0])
	} else {
		plainChain(l, 5, c.InitMs*1e6, validators[0])
	}
	return l
}

// tdposUnit evaluates one configuration: the structural oracle on the schedule
// and the acceptance oracle in every ledger mode. With only != nil just that
// point is evaluated (replay).
func tdposUnit(c tdCfg, only *tdPoint) *outcome {
	o := newOutcome()
	names := validatorNames(c.Proposers)
	validators := make([]string, len(names))
	for i, n := range names {
		validators[i] = world.Addr(n)
	}
	cands := append(append([]string{}, names...), candOutsider, candEmpty)
	caseOf := func(p tdPoint) map[string]interface{} {
		return map[string]interface{}{"part": "tdpos", "cfg": c, "point": p}
	}

	// the schedule does not depend on the ledger: take it from a young-chain instance
	l0 := tdLedger(c, modeYoung, validators)
	_, plug, err := build(l0, "M", "tdpos", c.json(validators))
	if err != nil {
		o.bad("c16.tdpos.constructor_refused", "TDPoS could not be built for a configuration of the box: "+err.Error(), caseOf(tdPoint{Kind: "structure"}), "an instance", err.Error())
		return o
	}
	at := func(ns int64) (s slot, panicked string) {
		defer func() {
			if r := recover(); r != nil {
				panicked = fmt.Sprint(r)
			}
		}()
		t, p, b, ok := tdpos.VerifMinerScheduling(plug, ns)
		if !ok {
			panicked = "export shim: not a tdpos instance"
		}
		return slot{t, p, b}, ""
	}

	// ---- enumerate every millisecond until term Terms+1 begins
	baseTerm := int64(0)
	var seq []slot // seq[i] is the schedule at ms startMs+i
	startMs := int64(0)
	if c.InitMs > 1000 {
		startMs = c.InitMs - 3 // three pre-init instants are enough for a far-away origin
	}
	for t := startMs; ; t++ {
		s, pan := at(t * 1e6)
		if pan != "" {
			o.bad("c16.tdpos.schedule_panic", fmt.Sprintf("minerScheduling panicked at t=%d ms: %s", t, pan), caseOf(tdPoint{Kind: "structure", TMs: t}), "a schedule triple", "panic "+pan)
			return o
		}
		if t >= c.InitMs && s.term > baseTerm+c.Terms {
			break
		}
		if t-startMs > capMs {
			o.bad("c16.tdpos.schedule_never_advances", fmt.Sprintf("term %d not reached within %d ms", c.Terms+1, capMs), caseOf(tdPoint{Kind: "structure", TMs: t}), "terms advance", s.String())
			break
		}
		seq = append(seq, s)
		s2, _ := at(t*1e6 + 999999)
		if s2 != s && (only == nil || only.Kind == "structure") {
			o.bad("c16.tdpos.sub_ms_inconsistent", fmt.Sprintf("schedule differs inside millisecond %d: %v at .000000, %v at .999999", t, s, s2), caseOf(tdPoint{Kind: "structure", TMs: t}), s.String(), s2.String())
		}
	}
	inSlot := func(s slot) bool { return s.bp >= 0 && s.bp < c.BlockNum && s.pos >= 0 && s.pos < c.Proposers }

	// ---- structural oracle
	if only == nil || only.Kind == "structure" {
		tdStructure(c, o, seq, startMs, caseOf)
	}

	// ---- acceptance oracle
	var instants []instant
	for i, s := range seq {
		instants = append(instants, instant{ns: (startMs + int64(i)) * 1e6, s: s})
	}
	for _, ns := range edgeTimes(len(seq)) {
		s, pan := at(ns)
		if pan != "" {
			o.bad("c16.tdpos.schedule_panic", fmt.Sprintf("TDPoS %+v: minerScheduling panicked at t=%s: %s", c, fmtNs(ns), pan), caseOf(tdPoint{Kind: "acceptance", TNs: ns}), "a schedule triple", "panic "+pan)
			continue
		}
		instants = append(instants, instant{ns: ns, s: s, edge: true})
	}
	modes := []string{modeYoung, modeGrown, modeNoHeight, modeGarbage}
	for _, mode := range modes {
		if only != nil && (only.Kind != "acceptance" || only.Mode != mode) {
			continue
		}
		l := tdLedger(c, mode, validators)
		pc, _, err := build(l, "M", "tdpos", c.json(validators))
		if err != nil {
			o.bad("c16.tdpos.constructor_refused", "TDPoS could not be built: "+err.Error(), caseOf(tdPoint{Kind: "acceptance", Mode: mode}), "an instance", err.Error())
			continue
		}
		height := int64(2)
		switch mode {
		case modeGrown:
			height = 6
		case modeNoHeight:
			height = 6
			l.failByHt = true
		case modeGarbage:
			height = 6
			for _, b := range l.chain {
				b.CurTerm = 1 << 40
			}
			l.store[tdBucket+"\x00"+tdNominateKey] = []byte("{not json")
		}
		resolvable := mode == modeYoung || mode == modeGrown
		blk := &lpb.InternalBlock{Version: 1, Height: height, Blockid: []byte("candidate"), PreHash: l.chain[len(l.chain)-1].Blockid, CurTerm: 1}
		nAcc, nRej := 0, 0
		seen := map[dkey]bool{}
		for _, in := range instants {
			if only != nil && only.TNs != in.ns {
				continue
			}
			s := in.s
			kind := "gap"
			switch {
			case in.ns < c.InitMs*1e6:
				kind = "pre_init"
			case inSlot(s):
				kind = "slot"
			}
			if in.edge {
				kind = "edge." + kind
			}
			accepted := 0
			for _, cn := range cands {
				if only != nil && only.Candidate != cn {
					continue
				}
				addr := addrOfCandidate(cn)
				blk.Timestamp = in.ns
				blk.Proposer = []byte(addr)
				got, pan := accept(pc, blk)
				pt := tdPoint{Kind: "acceptance", Mode: mode, TNs: in.ns, Candidate: cn}
				if pan != "" {
					key := "c16.tdpos.check_panic"
					if in.ns < 0 {
						key += ".negative_timestamp"
					}
					o.bad(key, fmt.Sprintf("TDPoS %+v: CheckMinerMatch panicked (%s ledger, t=%s, schedule %v, proposer %s): %s", c, mode, fmtNs(in.ns), s, cn, pan), caseOf(pt), "accept or reject", "panic "+pan)
					continue
				}
				// nobody is entitled before the configured start of the schedule
				entitled := resolvable && in.ns >= c.InitMs*1e6 && inSlot(s) && addr == validators[s.pos]
				class := "other_validator"
				switch {
				case entitled:
					class = "entitled"
				case cn == candOutsider:
					class = "outsider"
				case cn == candEmpty:
					class = "empty"
				}
				if got {
					accepted++
					nAcc++
				} else {
					nRej++
				}
				seen[dkey{kind, class, got}] = true
				if got && !entitled {
					key := "c16.tdpos.accepts_non_entitled"
					want := "rejected: nobody is entitled"
					switch {
					case !resolvable && cn == candEmpty:
						key = "c16.tdpos.empty_proposer_accepted"
					case !resolvable:
						key = "c16.tdpos.accepts_with_unresolved_validators"
					case cn == candEmpty:
						key = "c16.tdpos.empty_proposer_accepted"
					case in.ns < c.InitMs*1e6:
						key = "c16.tdpos.accepts_before_init_time"
						want = fmt.Sprintf("rejected: the schedule starts at %d ms, no term and no slot exists before", c.InitMs)
					case !inSlot(s):
						key = "c16.tdpos.accepts_outside_slot"
					default:
						want = "rejected: the entitled producer is " + names[s.pos]
					}
					o.bad(key, fmt.Sprintf("TDPoS %+v, %s ledger: block at t=%s (schedule %v) proposed by %s was accepted", c, mode, fmtNs(in.ns), s, cn), caseOf(pt), want, "accepted")
				}
				if !got && entitled && c.InBox {
					o.bad("c16.tdpos.rejects_entitled", fmt.Sprintf("TDPoS %+v, %s ledger: block at t=%s (schedule %v) proposed by the entitled %s was refused", c, mode, fmtNs(in.ns), s, cn), caseOf(pt), "accepted", "rejected")
				}
			}
			if accepted > 1 {
				o.bad("c16.tdpos.two_producers", fmt.Sprintf("TDPoS %+v, %s ledger: %d different proposers accepted at t=%s", c, mode, accepted, fmtNs(in.ns)), caseOf(tdPoint{Kind: "acceptance", Mode: mode, TNs: in.ns}), "at most one", fmt.Sprint(accepted))
			}
		}
		o.counts["acceptance_calls"] += nAcc + nRej
		o.counts["accepted."+mode] += nAcc
		o.counts["rejected."+mode] += nRej
		for k := range seen {
			o.distinct[fmt.Sprintf("tdpos|%s|%s|%s|b%d|n%d|%v", mode, k.kind, k.class, c.BlockNum, c.Proposers, k.acc)] = true
		}
	}
	if only == nil {
		o.counts["configs"]++
		if c.InBox {
			o.counts["configs_in_precondition"]++
		}
		o.counts["instants"] += len(seq)
		if c.Period == 3 && c.BlockNum == 2 && c.Proposers == 2 && c.Alternate == 4 && c.Term == 8 && c.InitMs == 7 {
			var cells []string
			last := slot{-1, -1, -2}
			for i, s := range seq {
				if s != last {
					cells = append(cells, fmt.Sprintf("%d:%d/%d/%d", startMs+int64(i), s.term, s.pos, s.bp))
					last = s
				}
			}
			o.sample = map[string]interface{}{"part": "tdpos", "cfg": c, "schedule_changes_ms:term/pos/slot": strings.Join(cells, " ")}
		}
	}
	return o
}

// tdStructure is the structural oracle on the schedule sequence (one entry per ms).
func tdStructure(c tdCfg, o *outcome, seq []slot, startMs int64, caseOf func(tdPoint) map[string]interface{}) {
	type cellKey struct{ term, pos int64 }
	type run struct{ first, n int64 }
	cells := map[cellKey]map[int64]*run{}
	seenCell := map[cellKey]bool{}
	var prev *slot
	for i := range seq {
		t := startMs + int64(i)
		if t < c.InitMs {
			continue
		}
		s := seq[i]
		o.counts["schedule_evaluations"]++
		pt := caseOf(tdPoint{Kind: "structure", TMs: t})
		// out-of-range indices are never produced (a gap is slot -1)
		if s.term < 1 || s.pos < 0 || s.pos >= c.Proposers || s.bp < -1 || s.bp >= c.BlockNum {
			// beyond the precondition the code may name a cell it then refuses; what matters there is acceptance
			if c.InBox {
				o.bad("c16.tdpos.schedule_out_of_range", fmt.Sprintf("TDPoS %+v: schedule at t=%d ms is %v", c, t, s), pt,
					fmt.Sprintf("term >= 1, 0 <= pos < %d, -1 <= slot < %d", c.Proposers, c.BlockNum), s.String())
			} else {
				o.counts["out_of_range_cells_outside_precondition"]++
			}
		}
		if !c.InBox {
			prev = &seq[i]
			continue
		}
		if prev != nil {
			if s.less(*prev) {
				o.bad("c16.tdpos.schedule_not_monotone", fmt.Sprintf("TDPoS %+v: schedule goes back from %v at t=%d ms to %v at t=%d ms", c, *prev, t-1, s, t), pt, "lexicographically non-decreasing", s.String())
			}
			if s.term-prev.term > 1 {
				o.bad("c16.tdpos.term_skipped", fmt.Sprintf("TDPoS %+v: term jumps from %d to %d at t=%d ms", c, prev.term, s.term, t), pt, "successive terms", s.String())
			}
		}
		prev = &seq[i]
		k := cellKey{s.term, s.pos}
		seenCell[k] = true
		if s.bp >= 0 {
			if cells[k] == nil {
				cells[k] = map[int64]*run{}
			}
			r := cells[k][s.bp]
			if r == nil {
				r = &run{first: t}
				cells[k][s.bp] = r
			}
			r.n++
		}
	}
	if !c.InBox {
		return
	}
	var lastStart int64 = -1 // first ms of the last slot of the previous cell
	var lastTerm int64
	for term := int64(1); term <= c.Terms; term++ {
		for pos := int64(0); pos < c.Proposers; pos++ {
			k := cellKey{term, pos}
			pt := caseOf(tdPoint{Kind: "structure", TMs: -1})
			if !seenCell[k] {
				o.bad("c16.tdpos.position_missing", fmt.Sprintf("TDPoS %+v: term %d never names position %d", c, term, pos), pt, "every position of every term, in order", "missing")
				continue
			}
			complete := true
			for bp := int64(0); bp < c.BlockNum; bp++ {
				var n int64
				if r := cells[k][bp]; r != nil {
					n = r.n
				}
				o.distinct[fmt.Sprintf("tdpos|cell|p%d|len%d", c.Period, n)] = true
				if n == 0 && c.Period-1 > 0 {
					complete = false
					o.bad("c16.tdpos.slot_count", fmt.Sprintf("TDPoS %+v: cell (term %d, pos %d) has no slot %d", c, term, pos, bp), pt, fmt.Sprintf("%d consecutive slots", c.BlockNum), "slot missing")
				} else if n < c.Period-1 || n > c.Period {
					o.bad("c16.tdpos.slot_length", fmt.Sprintf("TDPoS %+v: slot %d of cell (term %d, pos %d) lasts %d ms", c, bp, term, pos, n), pt, fmt.Sprintf("%d..%d ms", c.Period-1, c.Period), fmt.Sprint(n))
				}
			}
			o.counts["cells_checked"]++
			if c.Period >= 2 && complete {
				first := cells[k][0].first
				if lastStart >= 0 {
					d := first - lastStart
					if lastTerm == term {
						if d < c.Alternate || d > c.Alternate+1 {
							o.bad("c16.tdpos.alternate_interval", fmt.Sprintf("TDPoS %+v: %d ms from the last slot of (term %d, pos %d) to the first slot of pos %d", c, d, term, pos-1, pos), pt, fmt.Sprintf("%d..%d ms", c.Alternate, c.Alternate+1), fmt.Sprint(d))
						}
					} else if d < c.Term || d > c.Term+1 {
						o.bad("c16.tdpos.term_interval", fmt.Sprintf("TDPoS %+v: %d ms from the last slot of term %d to the first slot of term %d", c, d, lastTerm, term), pt, fmt.Sprintf("%d..%d ms", c.Term, c.Term+1), fmt.Sprint(d))
					}
				}
				lastStart, lastTerm = cells[k][c.BlockNum-1].first, term
			} else {
				lastStart = -1
			}
		}
	}
}

func runTdpos(rep *core.Report, tier core.Tier, distinct map[string]bool) int {
	box := tdposBox(tier)
	outs := make([]*outcome, len(box))
	parallel(len(box), func(i int) {
		if rep.Expired() {
			return
		}
		outs[i] = tdposUnit(box[i], nil)
	})
	merge(rep, "tdpos.", outs, distinct)
	n := 0
	for _, o := range outs {
		if o != nil {
			n += o.counts["acceptance_calls"] + o.counts["schedule_evaluations"]
		}
	}
	rep.Set("tdpos.box", fmt.Sprintf("%d configurations (period x block_num x proposer_num x alternate x term x init), every ms of %d terms, candidates validators+outsider+empty, ledger modes young/grown/unresolved.height/unresolved.record", len(box), box[0].Terms))
	return n
}

func replayTdpos(raw json.RawMessage) (*outcome, error) {
	var cs struct {
		Cfg   tdCfg   `json:"cfg"`
		Point tdPoint `json:"point"`
	}
	if err := json.Unmarshal(raw, &cs); err != nil {
		return nil, err
	}
	return tdposUnit(cs.Cfg, &cs.Point), nil
}
