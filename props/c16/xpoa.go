package c16

import (
	"encoding/json"
	"fmt"
	"strings"

	"verif/core"
	"verif/world"

	"github.com/xuperchain/xupercore/bcs/consensus/xpoa"
	lpb "github.com/xuperchain/xupercore/bcs/ledger/xledger/xldgpb"
)

type xpCfg struct {
	Period   int64 `json:"period"`
	BlockNum int64 `json:"block_num"`
	N        int64 `json:"validators"`
	StartMs  int64 `json:"window_start_ms"`
	Rounds   int64 `json:"rounds"`
}

func (c xpCfg) json(validators []string) string {
	q := make([]string, len(validators))
	for i, v := range validators {
		q[i] = `"` + v + `"`
	}
	return fmt.Sprintf(`{"period":%d,"block_num":%d,"init_proposer":{"address":[%s]}}`, c.Period, c.BlockNum, strings.Join(q, ","))
}

const (
	modeEdited     = "grown.edited"        // the contract record names another order of validators
	modeNoSnapshot = "unresolved.snapshot" // CreateSnapshot fails
	modeNoAddress  = "unresolved.norecord" // the record holds no address list
	// the edited ledger again, but the candidate (child of the tip of height 7) claims height 2,
	// where the initial validators would apply; the block header hash does not cover the height
	modeClaimLow = "grown.edited.claims_height_2"
)

func xpoaBox(tier core.Tier) []xpCfg {
	periods := []int64{1, 2, 3, 5}
	blockNums := []int64{1, 2, 3}
	ns := []int64{1, 2, 3, 4}
	rounds := int64(3)
	if tier == core.Thorough {
		periods = []int64{1, 2, 3, 5, 8, 13}
		blockNums = []int64{1, 2, 3, 4}
		ns = []int64{1, 2, 3, 4, 5}
		rounds = 6
	}
	var out []xpCfg
	for _, p := range periods {
		for _, b := range blockNums {
			for _, n := range ns {
				for _, s := range []int64{0, 1600000000123} {
					out = append(out, xpCfg{Period: p, BlockNum: b, N: n, StartMs: s, Rounds: rounds})
				}
			}
		}
	}
	return out
}

func xpLedger(c xpCfg, mode string, validators []string) *stubLedger {
	l := newStubLedger(genesisConf("xpoa", c.json(validators)))
	if mode == modeYoung {
		plainChain(l, 1, c.StartMs*1e6, validators[0])
	} else {
		plainChain(l, 7, c.StartMs*1e6, validators[0])
	}
	return l
}

func xpoaUnit(c xpCfg, only *tdPoint) *outcome {
	o := newOutcome()
	names := validatorNames(c.N)
	validators := make([]string, len(names))
	for i, n := range names {
		validators[i] = world.Addr(n)
	}
	// the edited set: reverse order
	edited := make([]string, len(validators))
	editedNames := make([]string, len(validators))
	for i := range validators {
		edited[i] = validators[len(validators)-1-i]
		editedNames[i] = names[len(validators)-1-i]
	}
	cands := append(append([]string{}, names...), candOutsider, candEmpty)
	caseOf := func(p tdPoint) map[string]interface{} {
		return map[string]interface{}{"part": "xpoa", "cfg": c, "point": p}
	}
	l0 := xpLedger(c, modeYoung, validators)
	_, plug, err := build(l0, "M", "xpoa", c.json(validators))
	if err != nil {
		o.bad("c16.xpoa.constructor_refused", "XPoA could not be built for a configuration of the box: "+err.Error(), caseOf(tdPoint{Kind: "structure"}), "an instance", err.Error())
		return o
	}
	at := func(ns int64) (s slot, panicked string) {
		defer func() {
			if r := recover(); r != nil {
				panicked = fmt.Sprint(r)
			}
		}()
		t, p, b, ok := xpoa.VerifMinerScheduling(plug, ns, int(c.N))
		if !ok {
			panicked = "export shim: not an xpoa instance"
		}
		return slot{t, p, b}, ""
	}
	var seq []slot
	var firstTerm int64
	for t := c.StartMs; ; t++ {
		s, pan := at(t * 1e6)
		if pan != "" {
			o.bad("c16.xpoa.schedule_panic", fmt.Sprintf("minerScheduling panicked at t=%d ms: %s", t, pan), caseOf(tdPoint{Kind: "structure", TMs: t}), "a schedule triple", "panic "+pan)
			return o
		}
		if t == c.StartMs {
			firstTerm = s.term
		}
		full := firstTerm + c.Rounds // last term that must be complete
		if c.StartMs == 0 {
			full = firstTerm + c.Rounds - 1
		}
		if s.term > full {
			break
		}
		if t-c.StartMs > capMs {
			o.bad("c16.xpoa.schedule_never_advances", fmt.Sprintf("round %d not reached within %d ms", full+1, capMs), caseOf(tdPoint{Kind: "structure", TMs: t}), "rounds advance", s.String())
			break
		}
		seq = append(seq, s)
		s2, _ := at(t*1e6 + 999999)
		if s2 != s && (only == nil || only.Kind == "structure") {
			o.bad("c16.xpoa.sub_ms_inconsistent", fmt.Sprintf("schedule differs inside millisecond %d: %v / %v", t, s, s2), caseOf(tdPoint{Kind: "structure", TMs: t}), s.String(), s2.String())
		}
	}
	inSlot := func(s slot) bool { return s.bp >= 1 && s.bp <= c.BlockNum && s.pos >= 0 && s.pos < c.N }

	if only == nil || only.Kind == "structure" {
		xpStructure(c, o, seq, firstTerm, caseOf)
	}

	var instants []instant
	for i, s := range seq {
		instants = append(instants, instant{ns: (c.StartMs + int64(i)) * 1e6, s: s})
	}
	if c.StartMs == 0 {
		for _, ns := range edgeTimes(len(seq)) {
			s, pan := at(ns)
			if pan != "" {
				o.bad("c16.xpoa.schedule_panic", fmt.Sprintf("XPoA %+v: minerScheduling panicked at t=%s: %s", c, fmtNs(ns), pan), caseOf(tdPoint{Kind: "acceptance", TNs: ns}), "a schedule triple", "panic "+pan)
				continue
			}
			instants = append(instants, instant{ns: ns, s: s, edge: true})
		}
	}
	modes := []string{modeYoung, modeGrown, modeEdited, modeNoHeight, modeNoSnapshot, modeGarbage, modeNoAddress, modeClaimLow}
	for _, mode := range modes {
		if only != nil && (only.Kind != "acceptance" || only.Mode != mode) {
			continue
		}
		l := xpLedger(c, mode, validators)
		pc, _, err := build(l, "M", "xpoa", c.json(validators))
		if err != nil {
			o.bad("c16.xpoa.constructor_refused", "XPoA could not be built: "+err.Error(), caseOf(tdPoint{Kind: "acceptance", Mode: mode}), "an instance", err.Error())
			continue
		}
		height := int64(8)
		want, wantNames := validators, names
		resolvable := true
		switch mode {
		case modeYoung:
			height = 2
		case modeEdited, modeClaimLow:
			l.store[xpoaBucket+"\x00"+xpoaValidators] = []byte(`{"address":["` + strings.Join(edited, `","`) + `"]}`)
			want, wantNames = edited, editedNames
			if mode == modeClaimLow {
				height = 2
			}
		case modeNoHeight:
			l.failByHt, resolvable = true, false
		case modeNoSnapshot:
			l.failSnap, resolvable = true, false
		case modeGarbage:
			l.store[xpoaBucket+"\x00"+xpoaValidators] = []byte("{not json")
			resolvable = false
		case modeNoAddress:
			l.store[xpoaBucket+"\x00"+xpoaValidators] = []byte("{}")
			resolvable = false
		}
		blk := &lpb.InternalBlock{Version: 1, Height: height, Blockid: []byte("candidate"), PreHash: l.chain[len(l.chain)-1].Blockid}
		nAcc, nRej := 0, 0
		seen := map[dkey]bool{}
		for _, in := range instants {
			if only != nil && only.TNs != in.ns {
				continue
			}
			s := in.s
			// outside the enumerated rounds (before 1970, extremes) the slot number has no
			// defined range; the position alone says who the code's schedule names
			inSlot := inSlot
			if in.edge {
				inSlot = func(s slot) bool { return s.pos >= 0 && s.pos < c.N }
			}
			accepted := 0
			for _, cn := range cands {
				if only != nil && only.Candidate != cn {
					continue
				}
				addr := addrOfCandidate(cn)
				blk.Timestamp = in.ns
				blk.Proposer = []byte(addr)
				got, pan := accept(pc, blk)
				pt := tdPoint{Kind: "acceptance", Mode: mode, TNs: in.ns, Candidate: cn}
				if pan != "" {
					key := "c16.xpoa.check_panic"
					if in.ns < 0 {
						key += ".negative_timestamp"
					}
					o.bad(key, fmt.Sprintf("XPoA %+v: CheckMinerMatch panicked (%s ledger, block of height %d, t=%s, schedule %v, proposer %s): %s", c, mode, height, fmtNs(in.ns), s, cn, pan), caseOf(pt), "accept or reject", "panic "+pan)
					continue
				}
				entitled := resolvable && inSlot(s) && addr == want[s.pos]
				class := "other_validator"
				switch {
				case entitled:
					class = "entitled"
				case cn == candOutsider:
					class = "outsider"
				case cn == candEmpty:
					class = "empty"
				}
				if got {
					accepted++
					nAcc++
				} else {
					nRej++
				}
				kind := "round"
				if in.edge {
					kind = "edge"
				}
				seen[dkey{kind, class, got}] = true
				if got && !entitled {
					key := "c16.xpoa.accepts_non_entitled"
					switch {
					case cn == candEmpty:
						key = "c16.xpoa.empty_proposer_accepted"
					case mode == modeClaimLow:
						key = "c16.xpoa.claimed_height_selects_validators"
					case !resolvable:
						key = "c16.xpoa.accepts_with_unresolved_validators"
					case !inSlot(s):
						key = "c16.xpoa.accepts_outside_slot"
					}
					exp := "rejected: the validator set cannot be resolved, nobody is entitled"
					if resolvable && inSlot(s) {
						exp = "rejected: the entitled producer is " + wantNames[s.pos]
					} else if resolvable {
						exp = "rejected: the schedule names no slot"
					}
					o.bad(key, fmt.Sprintf("XPoA %+v, %s ledger (tip height %d): block claiming height %d at t=%s (schedule %v) with proposer %q (%s) was accepted", c, mode, len(l.chain)-1, height, fmtNs(in.ns), s, addr, cn), caseOf(pt), exp, "accepted")
				}
				if !got && entitled && !in.edge && mode != modeClaimLow {
					o.bad("c16.xpoa.rejects_entitled", fmt.Sprintf("XPoA %+v, %s ledger: block at t=%s (schedule %v) proposed by the entitled %s was refused", c, mode, fmtNs(in.ns), s, cn), caseOf(pt), "accepted", "rejected")
				}
			}
			if accepted > 1 {
				o.bad("c16.xpoa.two_producers", fmt.Sprintf("XPoA %+v, %s ledger: %d different proposers accepted at t=%s", c, mode, accepted, fmtNs(in.ns)), caseOf(tdPoint{Kind: "acceptance", Mode: mode, TNs: in.ns}), "at most one", fmt.Sprint(accepted))
			}
		}
		o.counts["acceptance_calls"] += nAcc + nRej
		o.counts["accepted."+mode] += nAcc
		o.counts["rejected."+mode] += nRej
		for k := range seen {
			o.distinct[fmt.Sprintf("xpoa|%s|%s|%s|b%d|n%d|%v", mode, k.kind, k.class, c.BlockNum, c.N, k.acc)] = true
		}
	}
	if only == nil {
		o.counts["configs"]++
		o.counts["instants"] += len(seq)
		if c.Period == 2 && c.BlockNum == 2 && c.N == 3 && c.StartMs == 0 {
			var cells []string
			last := slot{-1, -1, -2}
			for i, s := range seq {
				if s != last {
					cells = append(cells, fmt.Sprintf("%d:%d/%d/%d", c.StartMs+int64(i), s.term, s.pos, s.bp))
					last = s
				}
			}
			o.sample = map[string]interface{}{"part": "xpoa", "cfg": c, "schedule_changes_ms:term/pos/slot": strings.Join(cells, " ")}
		}
	}
	return o
}

func xpStructure(c xpCfg, o *outcome, seq []slot, firstTerm int64, caseOf func(tdPoint) map[string]interface{}) {
	type cellKey struct{ term, pos int64 }
	cells := map[cellKey]map[int64]int64{}
	var prev *slot
	for i := range seq {
		t := c.StartMs + int64(i)
		s := seq[i]
		o.counts["schedule_evaluations"]++
		pt := caseOf(tdPoint{Kind: "structure", TMs: t})
		if s.term < 1 || s.pos < 0 || s.pos >= c.N || s.bp < 1 || s.bp > c.BlockNum {
			o.bad("c16.xpoa.schedule_out_of_range", fmt.Sprintf("XPoA %+v: schedule at t=%d ms is %v", c, t, s), pt,
				fmt.Sprintf("term >= 1, 0 <= pos < %d, 1 <= slot <= %d", c.N, c.BlockNum), s.String())
		}
		if prev != nil {
			if s.less(*prev) {
				o.bad("c16.xpoa.schedule_not_monotone", fmt.Sprintf("XPoA %+v: schedule goes back from %v to %v at t=%d ms", c, *prev, s, t), pt, "lexicographically non-decreasing", s.String())
			}
			if s.term-prev.term > 1 {
				o.bad("c16.xpoa.term_skipped", fmt.Sprintf("XPoA %+v: round jumps from %d to %d at t=%d ms", c, prev.term, s.term, t), pt, "successive rounds", s.String())
			}
		}
		prev = &seq[i]
		k := cellKey{s.term, s.pos}
		if cells[k] == nil {
			cells[k] = map[int64]int64{}
		}
		cells[k][s.bp]++
	}
	from := firstTerm
	if c.StartMs != 0 {
		from = firstTerm + 1 // the window starts inside a round
	}
	for term := from; term < from+c.Rounds; term++ {
		for pos := int64(0); pos < c.N; pos++ {
			k := cellKey{term, pos}
			pt := caseOf(tdPoint{Kind: "structure", TMs: -1})
			if cells[k] == nil {
				o.bad("c16.xpoa.position_missing", fmt.Sprintf("XPoA %+v: round %d never names position %d", c, term, pos), pt, "every position of every round, in order", "missing")
				continue
			}
			for bp := int64(1); bp <= c.BlockNum; bp++ {
				n := cells[k][bp]
				o.distinct[fmt.Sprintf("xpoa|cell|p%d|len%d", c.Period, n)] = true
				if n == 0 && c.Period-1 > 0 {
					o.bad("c16.xpoa.slot_count", fmt.Sprintf("XPoA %+v: cell (round %d, pos %d) has no slot %d", c, term, pos, bp), pt, fmt.Sprintf("%d consecutive slots", c.BlockNum), "slot missing")
				} else if n < c.Period-1 || n > c.Period {
					o.bad("c16.xpoa.slot_length", fmt.Sprintf("XPoA %+v: slot %d of cell (round %d, pos %d) lasts %d ms", c, bp, term, pos, n), pt, fmt.Sprintf("%d..%d ms", c.Period-1, c.Period), fmt.Sprint(n))
				}
			}
			o.counts["cells_checked"]++
		}
	}
}

func runXpoa(rep *core.Report, tier core.Tier, distinct map[string]bool) int {
	box := xpoaBox(tier)
	outs := make([]*outcome, len(box))
	parallel(len(box), func(i int) {
		if rep.Expired() {
			return
		}
		outs[i] = xpoaUnit(box[i], nil)
	})
	merge(rep, "xpoa.", outs, distinct)
	n := 0
	for _, o := range outs {
		if o != nil {
			n += o.counts["acceptance_calls"] + o.counts["schedule_evaluations"]
		}
	}
	rep.Set("xpoa.box", fmt.Sprintf("%d configurations (period x block_num x validators x window start), every ms of %d rounds, candidates validators+outsider+empty, 8 ledger modes", len(box), box[0].Rounds))
	return n
}

func replayXpoa(raw json.RawMessage) (*outcome, error) {
	var cs struct {
		Cfg   xpCfg   `json:"cfg"`
		Point tdPoint `json:"point"`
	}
	if err := json.Unmarshal(raw, &cs); err != nil {
		return nil, err
	}
	return xpoaUnit(cs.Cfg, &cs.Point), nil
}
