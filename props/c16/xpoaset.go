package c16

import (
	"encoding/json"
	"errors"
	"fmt"
	"math/big"
	"strconv"
	"strings"

	"verif/core"
	"verif/world"

	lpb "github.com/xuperchain/xupercore/bcs/ledger/xledger/xldgpb"
	"github.com/xuperchain/xupercore/kernel/consensus"
	"github.com/xuperchain/xupercore/kernel/contract"
	"github.com/xuperchain/xupercore/protos"
)

// ------------------------------------- XPoA: the validator set CHANGES (size too)
//
// The xpoa part sweeps fixed sets (and one re-ordered set of the same size).
// Here the set in force depends on the HEIGHT of the judged block: the chain
// starts with the configured set OLD; the real kernel method editValidates
// (taken from the registry the xpoa constructor registers it with) is run as a
// transaction of block scEditBlock and writes NEW, which the chain's rule puts
// in force from height scEditBlock+4 on (a block of height r is judged with the
// snapshot of block r-4). Enumerated:
//
//	(OLD, NEW)   every pair of a bounded family: OLD = V1..Va, NEW = any subset
//	             of OLD (order kept) followed by fresh members, sizes 1..max -
//	             same size, grown, shrunk, overlapping, disjoint
//	node         the verifying node is up since before the edit (its own mining
//	             set is still OLD) | was restarted after the edit (its own
//	             mining set, read from the tip state, is NEW)
//	height       of the candidate block: before / at / after the activation
//	             height (each candidate extends the chain's block of height-1)
//	time         every millisecond of `rounds` rounds of the longer of the two
//	             schedules
//	proposer     every member of OLD and NEW, an outsider, nobody
//
// Oracle: accepted iff the proposer is the member the schedule OF THE SET IN
// FORCE FOR THAT HEIGHT names for the block's timestamp: position
// (t mod (period*block_num*|S|)) / (period*block_num) of S. The node's own
// mining set has no say.

const (
	scEditBlock  = 2               // the block that carries the editValidates transaction
	scActivation = scEditBlock + 4 // first height judged with the new set
	nodeStale    = "up_since_before_the_edit"
	nodeRestart  = "restarted_after_the_edit"
)

type scCfg struct {
	Period   int64    `json:"period"`
	BlockNum int64    `json:"block_num"`
	Old      []string `json:"old_set"`
	New      []string `json:"new_set"`
	Rel      string   `json:"relation"`
	StartMs  int64    `json:"window_start_ms"`
	Rounds   int64    `json:"rounds"`
	MaxH     int64    `json:"max_candidate_height"`
	MinH     int64    `json:"min_candidate_height"`
}

type scPoint struct {
	Node      string `json:"node"`
	Height    int64  `json:"height"`
	TNs       int64  `json:"t_ns"`
	Candidate string `json:"candidate"`
}

// scPairs: old = V1..Va (a = 1..maxSize); new = any subset of old (order kept)
// followed by f fresh members V(maxSize+1).., 1 <= |new| <= maxSize.
func scPairs(maxSize int) (out []scCfg) {
	for a := 1; a <= maxSize; a++ {
		old := validatorNames(int64(a))
		for mask := 0; mask < 1<<uint(a); mask++ {
			var kept []string
			for i := 0; i < a; i++ {
				if mask&(1<<uint(i)) != 0 {
					kept = append(kept, old[i])
				}
			}
			for f := 0; f <= maxSize; f++ {
				size := len(kept) + f
				if size < 1 || size > maxSize {
					continue
				}
				nw := append([]string{}, kept...)
				for j := 1; j <= f; j++ {
					nw = append(nw, fmt.Sprintf("V%d", maxSize+j))
				}
				rel := "same_size"
				switch {
				case len(kept) == a && f == 0:
					rel = "unchanged"
				case size > a:
					rel = "grown"
				case size < a:
					rel = "shrunk"
				}
				out = append(out, scCfg{Old: old, New: nw, Rel: rel})
			}
		}
	}
	return out
}

func scBox(tier core.Tier) []scCfg {
	type pb struct{ p, b int64 }
	pbs := []pb{{1, 1}, {2, 2}, {3, 1}}
	maxSize, rounds, minH, maxH := 3, int64(3), int64(scActivation-1), int64(scActivation+1)
	if tier == core.Thorough {
		pbs = []pb{{1, 1}, {1, 3}, {2, 2}, {3, 1}, {3, 2}, {5, 3}}
		maxSize, rounds, minH, maxH = 4, 4, 2, scActivation+3
	}
	var out []scCfg
	for _, x := range pbs {
		for _, pair := range scPairs(maxSize) {
			for _, s := range []int64{0, 1600000000123} {
				c := pair
				c.Period, c.BlockNum, c.StartMs, c.Rounds, c.MinH, c.MaxH = x.p, x.b, s, rounds, minH, maxH
				out = append(out, c)
			}
		}
	}
	return out
}

// scTx is the kernel-contract context of the editValidates transaction: it reads
// the state after block at, its writes are collected for the block that includes it.
type scTx struct {
	args      map[string][]byte
	initiator string
	l         *stubLedger
	at        int64
	puts      []verWrite
}

func (c *scTx) Args() map[string][]byte { return c.args }
func (c *scTx) Initiator() string       { return c.initiator }
func (c *scTx) Caller() string          { return "" }
func (c *scTx) AuthRequire() []string   { return []string{c.initiator} }
func (c *scTx) Get(bucket string, key []byte) ([]byte, error) {
	v, ok := c.l.valueAt(c.at, bucket+"\x00"+string(key))
	if !ok {
		return nil, errors.New("not found")
	}
	return v, nil
}
func (c *scTx) Select(bucket string, startKey []byte, endKey []byte) (contract.Iterator, error) {
	return nil, errors.New("no iterator in stub")
}
func (c *scTx) Put(bucket string, key, value []byte) error {
	c.puts = append(c.puts, verWrite{key: bucket + "\x00" + string(key), value: append([]byte{}, value...)})
	return nil
}
func (c *scTx) Del(bucket string, key []byte) error                    { return errors.New("no delete in stub") }
func (c *scTx) Transfer(from string, to string, amount *big.Int) error { return nil }
func (c *scTx) AddEvent(events ...*protos.ContractEvent)               {}
func (c *scTx) Flush() error                                           { return nil }
func (c *scTx) RWSet() *contract.RWSet                                 { return nil }
func (c *scTx) UTXORWSet() *contract.UTXORWSet                         { return nil }
func (c *scTx) AddResourceUsed(delta contract.Limits)                  {}
func (c *scTx) ResourceLimit() contract.Limits                         { return contract.Limits{} }
func (c *scTx) Call(module, contractName, method string, args map[string][]byte) (*contract.Response, error) {
	return &contract.Response{Status: 200}, nil
}

func scAddrs(names []string) []string {
	out := make([]string, len(names))
	for i, n := range names {
		out[i] = world.Addr(n)
	}
	return out
}

func scGrow(l *stubLedger, to int, ts int64, by string) {
	for h := len(l.chain); h <= to; h++ {
		l.put(&lpb.InternalBlock{Version: 1, Height: int64(h), Blockid: []byte(fmt.Sprintf("stub-block-%02d", h)), PreHash: l.chain[h-1].Blockid,
			Timestamp: ts, Proposer: []byte(by), CurTerm: 1, InTrunk: true})
	}
}

// scSetAt is the model's set in force for a block of the given height.
func scSetAt(c scCfg, height int64) []string {
	if height >= scActivation {
		return c.New
	}
	return c.Old
}

// scPos: the position the schedule of a set of n members names at millisecond t.
func scPos(c scCfg, n int, tMs int64) int {
	posTime := c.Period * c.BlockNum
	return int((tMs % (posTime * int64(n))) / posTime)
}

func xpoaSetChangeUnit(c scCfg, only *scPoint) *outcome {
	o := newOutcome()
	caseOf := func(p scPoint) map[string]interface{} {
		return map[string]interface{}{"part": "xpoa.setchange", "cfg": c, "point": p}
	}
	oldAddrs := scAddrs(c.Old)
	conf := xpCfg{Period: c.Period, BlockNum: c.BlockNum}.json(oldAddrs)
	l := newStubLedger(genesisConf("xpoa", conf))
	l.versioned = true
	plainChain(l, scEditBlock-1, c.StartMs*1e6, oldAddrs[0])

	// the node that is up since before the edit
	ctx1, reg := newCtxReg(l, "M")
	stale, err := consensus.NewPluggableConsensus(ctx1)
	if err != nil {
		o.bad("c16.xpoa.constructor_refused", "XPoA could not be built: "+err.Error(), caseOf(scPoint{Node: nodeStale}), "an instance", err.Error())
		return o
	}
	// the edit: the real kernel method, as a transaction of block scEditBlock
	edit, err := reg.GetKernMethod(xpoaBucket, "editValidates")
	if err != nil {
		o.bad("c16.xpoa.set_change.harness", "editValidates is not registered", nil, "", "")
		return o
	}
	aks := make([]string, len(oldAddrs))
	for i, a := range oldAddrs {
		aks[i] = fmt.Sprintf("%q:1", a)
	}
	tx := &scTx{l: l, at: scEditBlock - 1, initiator: oldAddrs[0], args: map[string][]byte{
		"aksWeight":   []byte("{" + strings.Join(aks, ",") + "}"),
		"rule":        []byte("1"),
		"acceptValue": []byte(strconv.Itoa(len(oldAddrs))),
		"validates":   []byte(strings.Join(scAddrs(c.New), ";")),
	}}
	resp, err := edit(tx)
	if err != nil || resp == nil || resp.Status >= 400 || len(tx.puts) == 0 {
		o.bad("c16.xpoa.set_change.edit_refused", fmt.Sprintf("editValidates signed by every validator of %v refused the new set %v: %v", c.Old, c.New, err), caseOf(scPoint{}), "the new set is recorded", "refused")
		return o
	}
	for _, w := range tx.puts {
		w.block = scEditBlock
		l.writes = append(l.writes, w)
	}
	tip := int(c.MaxH) - 1
	scGrow(l, tip, c.StartMs*1e6, oldAddrs[0])

	// the node restarted after the edit
	ctx2, _ := newCtxReg(l, "M")
	restarted, err := consensus.NewPluggableConsensus(ctx2)
	if err != nil {
		o.bad("c16.xpoa.constructor_refused", "XPoA could not be built over the grown chain: "+err.Error(), caseOf(scPoint{Node: nodeRestart}), "an instance", err.Error())
		return o
	}

	universe := append([]string{}, c.Old...)
	for _, n := range c.New {
		in := false
		for _, u := range universe {
			in = in || u == n
		}
		if !in {
			universe = append(universe, n)
		}
	}
	cands := append(universe, candOutsider, candEmpty)
	maxN := len(c.Old)
	if len(c.New) > maxN {
		maxN = len(c.New)
	}
	span := c.Rounds * c.Period * c.BlockNum * int64(maxN)

	for _, node := range []string{nodeStale, nodeRestart} {
		if only != nil && only.Node != node {
			continue
		}
		pc := stale
		if node == nodeRestart {
			pc = restarted
		}
		for height := c.MinH; height <= c.MaxH; height++ {
			if only != nil && only.Height != height {
				continue
			}
			set := scSetAt(c, height)
			other := c.Old
			if height < scActivation {
				other = c.New
			}
			where := "before_activation"
			switch {
			case height == scActivation:
				where = "at_activation"
			case height > scActivation:
				where = "after_activation"
			}
			blk := &lpb.InternalBlock{Version: 1, Height: height, Blockid: []byte("candidate"), PreHash: l.chain[height-1].Blockid}
			nAcc, nRej := 0, 0
			seen := map[dkey]bool{}
			for t := c.StartMs; t < c.StartMs+span; t++ {
				ns := t * 1e6
				if only != nil && only.TNs != ns {
					continue
				}
				pos := scPos(c, len(set), t)
				accepted := 0
				for _, cn := range cands {
					if only != nil && only.Candidate != "" && only.Candidate != cn {
						continue
					}
					addr := addrOfCandidate(cn)
					blk.Timestamp, blk.Proposer = ns, []byte(addr)
					got, pan := accept(pc, blk)
					pt := scPoint{Node: node, Height: height, TNs: ns, Candidate: cn}
					desc := fmt.Sprintf("XPoA period %d block_num %d, validators %v replaced by %v through editValidates in block %d (in force from height %d on), node %s: block of height %d (set in force %v) at t=%d ms proposed by %s",
						c.Period, c.BlockNum, c.Old, c.New, scEditBlock, scActivation, node, height, set, t, cn)
					if pan != "" {
						o.bad("c16.xpoa.set_change.check_panic", desc+": CheckMinerMatch panicked: "+pan, caseOf(pt), "accept or reject", "panic "+pan)
						continue
					}
					entitled := cn == set[pos]
					class := "other_member"
					switch {
					case entitled:
						class = "entitled"
					case cn == candOutsider:
						class = "outsider"
					case cn == candEmpty:
						class = "empty"
					}
					if got {
						accepted++
						nAcc++
					} else {
						nRej++
					}
					seen[dkey{where, class, got}] = true
					if got && !entitled {
						key := "c16.xpoa.set_change.accepts_non_entitled"
						posO := scPos(c, len(other), t)
						switch {
						case cn == candEmpty:
							key = "c16.xpoa.set_change.empty_proposer_accepted"
						case len(other) != len(set) && posO < len(set) && set[posO] == cn:
							// the member of the set in force at the position that a schedule over ANOTHER NUMBER of validators names
							key = "c16.xpoa.set_change.slot_position_from_another_set_size"
						case other[posO] == cn:
							key = "c16.xpoa.set_change.judged_by_the_set_not_in_force"
						}
						o.bad(key, desc+" was accepted", caseOf(pt), fmt.Sprintf("rejected: the schedule of the set in force names %s (position %d of %d)", set[pos], pos, len(set)), "accepted")
					}
					if !got && entitled {
						o.bad("c16.xpoa.set_change.rejects_entitled", desc+fmt.Sprintf(", the member the schedule of the set in force names (position %d of %d), was refused", pos, len(set)), caseOf(pt), "accepted", "rejected")
					}
				}
				if accepted > 1 {
					o.bad("c16.xpoa.set_change.two_producers", fmt.Sprintf("XPoA %+v, node %s: %d different proposers accepted for height %d at t=%d ms", c, node, accepted, height, t),
						caseOf(scPoint{Node: node, Height: height, TNs: ns}), "at most one", fmt.Sprint(accepted))
				}
			}
			o.counts["acceptance_calls"] += nAcc + nRej
			o.counts["accepted."+node+"."+where] += nAcc
			o.counts["rejected."+node+"."+where] += nRej
			for k := range seen {
				o.distinct[fmt.Sprintf("xpoa.setchange|%s|%d->%d|%s|%s|%s|%v", c.Rel, len(c.Old), len(c.New), node, k.kind, k.class, k.acc)] = true
			}
		}
	}
	if only == nil {
		o.counts["scenarios"]++
		o.counts["scenarios."+c.Rel]++
		if c.Period == 2 && c.BlockNum == 2 && c.StartMs == 0 && len(c.Old) == 2 && len(c.New) == 3 && c.New[0] == "V1" && c.New[1] == "V2" {
			var cells []string
			for _, h := range []int64{scActivation - 1, scActivation} {
				set := scSetAt(c, h)
				var s []string
				for t := int64(0); t < span; t += c.Period * c.BlockNum {
					s = append(s, fmt.Sprintf("%d:%s", t, set[scPos(c, len(set), t)]))
				}
				cells = append(cells, fmt.Sprintf("height %d: %s", h, strings.Join(s, " ")))
			}
			o.sample = map[string]interface{}{"part": "xpoa.setchange", "cfg": c, "entitled_by_ms": cells}
		}
	}
	return o
}

func runXpoaSetChange(rep *core.Report, tier core.Tier, distinct map[string]bool) int {
	box := scBox(tier)
	outs := make([]*outcome, len(box))
	parallel(len(box), func(i int) {
		if rep.Expired() {
			return
		}
		outs[i] = xpoaSetChangeUnit(box[i], nil)
	})
	merge(rep, "xpoa.setchange.", outs, distinct)
	n := 0
	for _, o := range outs {
		if o != nil {
			n += o.counts["acceptance_calls"]
		}
	}
	rep.Set("xpoa.setchange.box", fmt.Sprintf("%d scenarios: (period, block_num) x (old, new) validator-set pairs (old = V1..Va, new = any subset of old followed by fresh members, sizes 1..%d: unchanged, same size, grown, shrunk) x window start; "+
		"the new set is written by the real editValidates kernel method as a transaction of block %d of a stub chain with per-block snapshots and is in force from height %d on; "+
		"verifying node {%s (own mining set = old), %s (own mining set = new, read from the tip state)} x candidate heights %d..%d (activation height %d) x every ms of %d rounds of the longer schedule x proposers {every member of old and new, outsider, empty}; "+
		"accepted iff the proposer is the member that the schedule of the set in force for the block's height names at the block's timestamp",
		len(box), len(box[len(box)-1].Old), scEditBlock, scActivation, nodeStale, nodeRestart, box[0].MinH, box[0].MaxH, scActivation, box[0].Rounds))
	return n
}

func replayXpoaSetChange(raw json.RawMessage) (*outcome, error) {
	var cs struct {
		Cfg   scCfg   `json:"cfg"`
		Point scPoint `json:"point"`
	}
	if err := json.Unmarshal(raw, &cs); err != nil {
		return nil, err
	}
	c := cs.Cfg
	if len(c.Old) == 0 || len(c.New) == 0 || c.Period < 1 || c.BlockNum < 1 || c.MaxH < c.MinH || c.MinH < 2 || c.MaxH > 40 {
		return nil, fmt.Errorf("xpoa.setchange case: bad configuration %+v", c)
	}
	for _, n := range append(append([]string{}, c.Old...), c.New...) {
		if _, ok := world.Keys[n]; !ok {
			return nil, fmt.Errorf("xpoa.setchange case: unknown identity %q", n)
		}
	}
	return xpoaSetChangeUnit(c, &cs.Point), nil
}
