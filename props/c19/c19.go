// Package c19: governance tokens are conserved; locks bind and only lock /
// unlock changes them.
//
// Explicit-state search (engine/xplore) over the real kernel contracts
// $govern_token, $proposal, $timer_task and the TDPoS kernel methods
// (nominateCandidate, voteCandidate, revokeVote, revokeNominate) registered by
// the real NewTdposConsensus on the world's contract manager. An event is one
// contract call made the way a client + miner make it: pre-execution on a
// sandbox over the state's XMReader, a signed transaction carrying the
// read/write set, State.VerifyTx + DoTx, then a block [award, timer tx of that
// height (State.GetTimerTx, as Miner.packBlock), the transaction] confirmed by
// the ledger and played with PlayForMiner. A call that fails (Invoke error or
// status >= 400) commits nothing. The state is the committed content of the
// governToken / proposal / timer / $tdpos buckets.
//
// Amounts: the ordinary events carry valid decimal amounts (0, 1, 500, 1000,
// the whole / available balance and one more). On top of that every expanded
// state is swept with every amount-taking method x every call site x an
// alphabet of negative, over-supply (beyond 64 bits), malformed, zero and
// unusually spelled amount strings (section "amount sweep"). The oracles never
// say which amount must be refused: whatever is committed has to keep, for
// every account, balance >= each locked amount, no balance lowered except by
// the account's own transfer, locks moved only (and only in the right
// direction) by lock / unlock calls of that account, and conservation.
//
// Account names: the ordinary events name accounts by canonical addresses. The
// name sweep and the pass "names" (names.go) add an alphabet of other spellings
// of those addresses and of names that are no account at all, as Transfer
// receiver, Lock / UnLock account and TDPoS candidate. The oracles work on every
// record stored under the balance prefix (the bucket is scanned), whatever name
// it is stored under.
package c19

import (
	"bytes"
	"encoding/base64"
	"encoding/json"
	"fmt"
	"math/big"
	"runtime/debug"
	"sort"
	"strconv"
	"strings"
	"sync"

	"verif/core"
	"verif/engine/xplore"
	"verif/world"

	"github.com/xuperchain/xupercore/bcs/consensus/tdpos"
	pb "github.com/xuperchain/xupercore/bcs/ledger/xledger/xldgpb"
	xctx "github.com/xuperchain/xupercore/kernel/common/xcontext"
	cctx "github.com/xuperchain/xupercore/kernel/consensus/context"
	"github.com/xuperchain/xupercore/kernel/consensus/def"
	"github.com/xuperchain/xupercore/kernel/engines/xuperos/agent"
	nctx "github.com/xuperchain/xupercore/kernel/network/context"
	"github.com/xuperchain/xupercore/kernel/network/p2p"
	"github.com/xuperchain/xupercore/lib/timer"
	"github.com/xuperchain/xupercore/protos"
	"github.com/xuperchain/xupercore/verifshim/vhook"
)

const (
	bktGov      = "governToken"
	bktProposal = "proposal"
	bktTimer    = "timer"

	typeOrdinary = "ordinary"
	typeTdpos    = "tdpos"

	quotaA = 3000
	quotaB = 1500

	// premined empty blocks: the TDPoS methods accept only heights above the
	// consensus start height (1 for a genesis consensus). With one premined
	// block Init lands at height 2, so the tip is an acceptable height argument
	// for every call after Init, and tip-1 from the next block on (before that
	// the $tdpos bucket is empty and a revoke fails whatever height it names).
	premine = 1
)

var lockTypes = []string{typeOrdinary, typeTdpos}

// bktTdpos is the kernel contract of the TDPoS methods: "$tdpos", or "$xpos" while the
// pass "xpos" runs (TDPoS with bft_config: the same methods bound to the other bucket and
// calling $govern_token as the other caller, tdpos/schedule.go:84). Passes run one after
// another, so the variable is constant while instances of a pass are alive.
var (
	bktTdpos = "$tdpos"
	xposMode = false
)

// idsSetup: while the pass "ids" runs, every instance starts from a NON-INITIAL state reached by real
// calls: Init, proposal 1 by a with a very long voting period, proposals 2..9 proposed and thawed by a.
// The next proposal gets id 10, whose decimal spelling extends that of the open proposal 1.
var idsSetup = false

const (
	xlStop    = 19 // the setup takes 17 blocks after the Propose of 1 was built: 1 stops two blocks later
	xlTrigger = 20
)

func setXpos(on bool) {
	xposMode = on
	bktTdpos = "$tdpos"
	if on {
		bktTdpos = "$xpos"
	}
}

// accounts: symbolic name -> world key name. c has no genesis quota (fresh).
var accounts = []string{"a", "b", "c"}

func keyName(a string) string { return strings.ToUpper(a) }
func addrOf(a string) string {
	k, ok := world.Keys[keyName(a)]
	if !ok || len(a) != 1 {
		panic("c19: no such account " + strconv.Quote(a))
	}
	return k.Address
}

// nameOfAddr renders the account name of a stored record for messages.
func nameOfAddr(addr string) string { return showName(addr) }

// ---------------------------------------------------------------------------
// stub network for NewTdposConsensus (only PeerInfo is used by the non-BFT path)

type stubNet struct{}

func (stubNet) Start() {}
func (stubNet) Stop()  {}
func (stubNet) SendMessage(xctx.XContext, *protos.XuperMessage, ...p2p.OptionFunc) error {
	return nil
}
func (stubNet) SendMessageWithResponse(xctx.XContext, *protos.XuperMessage, ...p2p.OptionFunc) ([]*protos.XuperMessage, error) {
	return nil, nil
}
func (stubNet) NewSubscriber(protos.XuperMessage_MessageType, interface{}, ...p2p.SubscriberOption) p2p.Subscriber {
	return nil
}
func (stubNet) Register(p2p.Subscriber) error   { return nil }
func (stubNet) UnRegister(p2p.Subscriber) error { return nil }
func (stubNet) Context() *nctx.NetCtx           { return nil }
func (stubNet) PeerInfo() protos.PeerInfo       { return protos.PeerInfo{Account: world.Addr("M")} }

// registerTdpos builds the real (non-BFT) TDPoS consensus object on the world's
// contract manager and ledger agent; its constructor registers the four
// $tdpos kernel methods.
func registerTdpos(w *world.World) error {
	m := world.Keys["M"]
	cfg := fmt.Sprintf(`{"timestamp":"1559021720000000000","proposer_num":"1","period":"3000","alternate_interval":"3000","term_interval":"6000","block_num":"20","vote_unit_price":"1","init_proposer":{"1":[%q]}%s}`, m.Address, map[bool]string{false: "", true: `,"bft_config":{}`}[xposMode])
	cc := cctx.ConsensusCtx{
		BcName:   world.BCName,
		Address:  &cctx.Address{Address: m.Address, PrivateKey: m.Priv, PublicKey: &m.Priv.PublicKey, PrivateKeyStr: m.PriJSON, PublicKeyStr: m.PubJSON},
		Crypto:   world.Crypto,
		Contract: w.Chain.Contract,
		Ledger:   agent.NewLedgerAgent(w.Chain),
		Network:  stubNet{},
	}
	cc.XLog = w.Log
	cc.Timer = timer.NewXTimer()
	c := tdpos.NewTdposConsensus(cc, def.ConsensusConfig{ConsensusName: "tdpos", Config: cfg, StartHeight: 1, Index: 0})
	if c == nil {
		return fmt.Errorf("NewTdposConsensus returned nil")
	}
	for _, meth := range []string{"nominateCandidate", "voteCandidate", "revokeVote", "revokeNominate"} {
		if _, err := w.Chain.Contract.GetKernRegistry().GetKernMethod(bktTdpos, meth); err != nil {
			return fmt.Errorf("tdpos method %s not registered: %v", meth, err)
		}
	}
	return nil
}

// ---------------------------------------------------------------------------
// table content

type balance struct {
	Total  *big.Int
	Locked map[string]*big.Int
	Bad    string // non-empty: the record could not be parsed
}

func zeroBalance() *balance {
	return &balance{Total: new(big.Int), Locked: map[string]*big.Int{typeOrdinary: new(big.Int), typeTdpos: new(big.Int)}}
}

func (b *balance) lock(t string) *big.Int {
	if v, ok := b.Locked[t]; ok && v != nil {
		return v
	}
	return new(big.Int)
}

func (b *balance) String() string {
	return fmt.Sprintf("{total %s, ordinary %s, tdpos %s}", b.Total, b.lock(typeOrdinary), b.lock(typeTdpos))
}

type tables struct {
	Raw map[string]map[string]string // bucket -> key -> value
	Bal map[string]*balance          // address -> record (governToken balanceOf_*)
}

func (t *tables) bal(addr string) *balance {
	if b, ok := t.Bal[addr]; ok {
		return b
	}
	return zeroBalance()
}

// proposalRec parses the stored record of proposal id ("" status: no such proposal).
func (t *tables) proposalRec(id string) (status string, votes *big.Int) {
	var pr struct {
		Status string   `json:"status"`
		Votes  *big.Int `json:"vote_amount"`
	}
	v, ok := t.Raw[bktProposal][id]
	if !ok || json.Unmarshal([]byte(v), &pr) != nil {
		return "", new(big.Int)
	}
	if pr.Votes == nil {
		pr.Votes = new(big.Int)
	}
	return pr.Status, pr.Votes
}

func (t *tables) status(id string) string  { s, _ := t.proposalRec(id); return s }
func (t *tables) votes(id string) *big.Int { _, v := t.proposalRec(id); return v }

func (t *tables) initialised() bool { return t.Raw[bktGov]["distributed"] == "true" }

func (t *tables) sum() *big.Int {
	s := new(big.Int)
	for _, b := range t.Bal {
		if b.Bad == "" {
			s.Add(s, b.Total)
		}
	}
	return s
}

func (t *tables) canon() string {
	var sb strings.Builder
	for _, bk := range []string{bktGov, bktProposal, bktTimer, bktTdpos} {
		m := t.Raw[bk]
		keys := make([]string, 0, len(m))
		for k := range m {
			keys = append(keys, k)
		}
		sort.Strings(keys)
		for _, k := range keys {
			fmt.Fprintf(&sb, "%s/%s=%s\n", bk, k, m[k])
		}
	}
	return sb.String()
}

func readTables(w *world.World) *tables {
	t := &tables{Raw: map[string]map[string]string{}, Bal: map[string]*balance{}}
	r := w.State.CreateXMReader()
	for _, bk := range []string{bktGov, bktProposal, bktTimer, bktTdpos} {
		m := map[string]string{}
		t.Raw[bk] = m
		it, err := r.Select(bk, []byte(""), []byte{0xff})
		if err != nil {
			core.HarnessError("c19: select %s: %v", bk, err)
		}
		for it.Next() {
			v := it.Value()
			if v == nil || v.PureData == nil {
				continue
			}
			m[string(v.PureData.Key)] = string(v.PureData.Value)
		}
		if err := it.Error(); err != nil {
			core.HarnessError("c19: iterate %s: %v", bk, err)
		}
		it.Close()
	}
	for k, v := range t.Raw[bktGov] {
		if !strings.HasPrefix(k, "balanceOf_") {
			continue
		}
		addr := strings.TrimPrefix(k, "balanceOf_")
		var rec struct {
			Total  *big.Int            `json:"total_balance"`
			Locked map[string]*big.Int `json:"locked_balances"`
		}
		b := zeroBalance()
		if err := json.Unmarshal([]byte(v), &rec); err != nil || rec.Total == nil {
			b.Bad = v
		} else {
			b.Total = rec.Total
			for lt, lv := range rec.Locked {
				if lv != nil {
					b.Locked[lt] = lv
				}
			}
		}
		t.Bal[addr] = b
	}
	return t
}

// ---------------------------------------------------------------------------
// events

type step struct {
	Ev        string
	Kind      string   // init xfer propose vote thaw tick nominate tvote trevoke unnominate lock! unlock!
	From, To  string   // symbolic account names
	Amt       *big.Int // numeric value of the amount argument (nil: none, or it is no base-10 integer)
	Raw       string   // the amount argument exactly as sent
	HasAmt    bool     // the call carries an amount argument
	Canon     bool     // Raw is the canonical decimal rendering of a non-negative integer
	Target    string   // direct Lock / UnLock: the account named as 'from' (symbolic)
	LT        string   // direct Lock / UnLock: the lock type named
	Stale     bool     // TDPoS revoke naming the height before the tip
	Committed bool     // the call's transaction was committed
	Mined     bool     // a block was produced (committed call or tick)
	Height    int64    // height of the produced block
	Fired     []string
	Obs       string
}

type counters struct {
	mu sync.Mutex
	m  map[string]int
}

func (c *counters) add(k string) {
	c.mu.Lock()
	c.m[k]++
	c.mu.Unlock()
}

// collector keeps, per violation key, the smallest counterexample (shortest
// history, fewest transfers, a non-self transfer preferred, shortest spelling,
// then lexicographic)
// so that what is reported does not depend on worker scheduling and relies on
// as few other defects as possible.
type collector struct {
	mu sync.Mutex
	m  map[string]*found
}

type found struct {
	v     core.Violation
	rank  string
	count int
}

func rankOf(hist []string) string {
	self, stale, xfers := 0, 0, 0
	for k, e := range hist {
		f := strings.Split(e, ":")
		if f[0] == "xfer" {
			xfers++
			if ft := strings.Split(f[1], ">"); ft[0] == ft[1] && k == len(hist)-1 {
				self = 1
			}
		}
		if strings.HasSuffix(e, ":old") {
			stale++
		}
	}
	j := strings.Join(hist, " ")
	return fmt.Sprintf("%03d|%d|%d|%d|%04d|%s", len(hist), xfers, self, stale, len(j), j)
}

func (c *collector) add(vs []core.Violation, hist []string) {
	if len(vs) == 0 {
		return
	}
	r := rankOf(hist)
	c.mu.Lock()
	defer c.mu.Unlock()
	for _, v := range vs {
		f := c.m[v.Key]
		if f == nil {
			c.m[v.Key] = &found{v: v, rank: r, count: 1}
			continue
		}
		f.count++
		if r < f.rank {
			f.v, f.rank = v, r
		}
	}
}

func (c *collector) flush(rep *core.Report) {
	c.mu.Lock()
	defer c.mu.Unlock()
	keys := make([]string, 0, len(c.m))
	for k := range c.m {
		keys = append(keys, k)
	}
	sort.Strings(keys)
	for _, k := range keys {
		f := c.m[k]
		for n := 0; n < f.count; n++ {
			rep.Violation(f.v)
		}
	}
}

type inst struct {
	alpha    string // "full" or "proposal" (event alphabet)
	col      *collector
	w        *world.World
	tip      *pb.InternalBlock
	seq      int
	cur      *tables
	pre      *tables
	last     *step
	tdposOld map[string]string // $tdpos bucket as of the block before the tip
	cnt      *counters

	spellDepth int              // valid alternative spellings are probed after histories up to this length
	nameDepth  int              // the name sweep is offered after histories up to this length
	applied    []string         // events applied so far
	probeClass string           // non-empty: this instance executes one sweep probe of that amount / name class
	probeTag   string           // "probe" (amount sweep) or "nprobe" (name sweep)
	sweepViol  []core.Violation // replay mode only: violations found by the probes of a sweep

	// reference bookkeeping of the open obligations (section "obligations")
	oblig    map[string]map[string]*big.Int // proposal id -> account -> tokens that account locked for it (deposit + votes, minus a thawed deposit)
	deposit  map[string]string              // proposal id -> the proposer (made the deposit)
	thawed   map[string]bool                // proposal id -> the proposer has thawed (deposit released)
	preDue   map[string]*big.Int            // per account: sum of its obligations towards proposals in status voting, before the last event
	preOpen  map[string]int                 // per account: number of voting proposals it had obligations towards, before the last event
	rethaw   bool                           // the last event was a Thaw of a proposal whose deposit the reference had already released
	maxProps int                            // pass "obligations": number of proposals the alphabet opens
}

func worldConfig() world.Config {
	cfg := world.DefaultConfig()
	cfg.Quotas = map[string]string{"A": strconv.Itoa(quotaA), "B": strconv.Itoa(quotaB)}
	cfg.NoFee = true
	return cfg
}

// newInst: depths = [spellDepth [, nameDepth]].
func newInst(cnt *counters, col *collector, alpha string, depths ...int) *inst {
	vhook.Capture()
	w, err := world.New(worldConfig(), nil)
	if err != nil {
		core.HarnessError("c19: world: %v", err)
	}
	if err := registerTdpos(w); err != nil {
		core.HarnessError("c19: tdpos: %v", err)
	}
	i := &inst{w: w, tip: w.Genesis, cnt: cnt, col: col, alpha: alpha, spellDepth: 1 << 20, nameDepth: 1 << 20,
		oblig: map[string]map[string]*big.Int{}, deposit: map[string]string{}, thawed: map[string]bool{}, maxProps: 2}
	if len(depths) >= 1 {
		i.spellDepth = depths[0]
	}
	if len(depths) >= 2 {
		i.nameDepth = depths[1]
	}
	for k := 0; k < premine; k++ {
		if _, _, err := i.mine(nil); err != nil {
			core.HarnessError("c19: premine: %v", err)
		}
	}
	i.cur = readTables(w)
	i.tdposOld = i.cur.Raw[bktTdpos]
	if idsSetup {
		i.maxProps = 11
		setup := []string{"init", "propose:a:x"}
		for k := 2; k <= 9; k++ {
			setup = append(setup, "propose:a", fmt.Sprintf("thaw:%d:a", k))
		}
		for _, ev := range setup {
			if obs := i.Apply(ev); !strings.HasPrefix(obs, "ok") {
				core.HarnessError("c19: ids setup: %s => %s", ev, obs)
			}
		}
		if i.cur.Raw[bktProposal]["id"] != "9" || i.cur.status("1") != "voting" {
			core.HarnessError("c19: ids setup: latest id %q, status of 1 %q", i.cur.Raw[bktProposal]["id"], i.cur.status("1"))
		}
		i.applied = nil
	}
	return i
}

func (i *inst) Close() { i.w.Drop() }

// mine produces one block on the tip as Miner.packBlock does: award, the timer
// transaction of that height if it writes anything, then the pool.
func (i *inst) mine(txs []*pb.Transaction) (height int64, timerTx bool, err error) {
	height = i.tip.Height + 1
	auto, err := i.w.State.GetTimerTx(height)
	if err != nil {
		return height, false, fmt.Errorf("GetTimerTx: %v", err)
	}
	var list []*pb.Transaction
	if auto != nil && len(auto.TxOutputsExt) > 0 {
		list = append(list, auto)
		timerTx = true
	}
	list = append(list, txs...)
	blk, err := i.w.FormatBlock("M", i.tip, list, 1000+height, fmt.Sprintf("c19-%d", height))
	if err != nil {
		return height, timerTx, fmt.Errorf("format: %v", err)
	}
	stored := world.CloneBlock(blk)
	if ok, st := i.w.Recv(blk); !ok {
		return height, timerTx, fmt.Errorf("ledger refused the block: %s", st)
	}
	if err := i.w.State.PlayForMiner(stored.Blockid); err != nil {
		return height, timerTx, fmt.Errorf("PlayForMiner: %v", err)
	}
	vhook.Drain()
	i.tip = stored
	return height, timerTx, nil
}

func big10(s string) *big.Int {
	n, ok := new(big.Int).SetString(s, 10)
	if !ok {
		panic("c19: bad number " + s)
	}
	return n
}

// amount resolves a symbolic amount for account acc and lock type lt ("" for transfers).
func (i *inst) amount(tok, acc, lt string) *big.Int {
	b := i.cur.bal(nameStr(acc))
	switch tok {
	case "all", "all+1":
		n := new(big.Int).Set(b.Total)
		if lt != "" { // lockable: what is not locked under that type
			n.Sub(n, b.lock(lt))
		}
		if tok == "all+1" {
			n.Add(n, big.NewInt(1))
		}
		return n
	case "av", "av+1": // transferable: total minus the largest lock
		n := new(big.Int).Set(b.Total)
		mx := new(big.Int)
		for _, t := range lockTypes {
			if b.lock(t).Cmp(mx) > 0 {
				mx = b.lock(t)
			}
		}
		n.Sub(n, mx)
		if tok == "av+1" {
			n.Add(n, big.NewInt(1))
		}
		return n
	}
	return big10(tok)
}

// amountArg resolves an amount token to the argument string that is sent and
// its numeric value. Besides the symbolic tokens of amount():
//
//	=<literal>  the literal is sent verbatim (negative, zero, malformed, huge,
//	            alternative spellings: the amount alphabet of the sweep)
//	-all        minus the whole balance of acc
func (i *inst) amountArg(s *step, tok, acc, lt string) {
	s.HasAmt = true
	switch {
	case strings.HasPrefix(tok, "="):
		s.Raw = tok[1:]
		if n, ok := new(big.Int).SetString(s.Raw, 10); ok {
			s.Amt = n
		}
	case tok == "-all":
		s.Amt = new(big.Int).Neg(i.cur.bal(nameStr(acc)).Total)
		s.Raw = "-" + i.cur.bal(nameStr(acc)).Total.String()
	default:
		s.Amt = i.amount(tok, acc, lt)
		s.Raw = s.Amt.String()
	}
	s.Canon = s.Amt != nil && s.Amt.Sign() >= 0 && s.Amt.String() == s.Raw
}

// proposal parameters of the alphabet: every proposal asks for 51 percent of the
// supply; the deposit is fixed by the contract. Heights relative to the tip at
// the time of the Propose call (the call itself lands in block tip+1; the call
// of a block runs before the timer task of that block): the short period leaves
// two calls before the tally and one between tally and trigger, the long
// period four and one.
const (
	proposalDeposit = 1000
	minVotePercent  = 51
	passThreshold   = (quotaA + quotaB) * minVotePercent / 100
	shortStop       = 3
	shortTrigger    = 4
	longStop        = 5
	longTrigger     = 6
)

func proposalJSON(stop, trigger int64) string {
	return fmt.Sprintf(`{"args":{"min_vote_percent":"51","stop_vote_height":"%d"},"trigger":{"height":%d,"module":"xkernel","contract":"$govern_token","method":"TotalSupply","args":{}}}`, stop, trigger)
}

// request translates an event into the contract call.
func (i *inst) request(ev string) (*step, *protos.InvokeRequest) {
	f := strings.Split(ev, ":")
	s := &step{Ev: ev, Kind: f[0]}
	req := &protos.InvokeRequest{ModuleName: "xkernel", Args: map[string][]byte{}}
	tipH := i.tip.Height
	hsel := func(tok string) string {
		if tok == "old" {
			s.Stale = true
			return strconv.FormatInt(tipH-1, 10)
		}
		return strconv.FormatInt(tipH, 10)
	}
	switch s.Kind {
	case "init":
		s.From = "a"
		req.ContractName, req.MethodName = "$govern_token", "Init"
	case "xfer": // xfer:a>b:amt
		ft := strings.Split(f[1], ">")
		s.From, s.To = ft[0], ft[1]
		i.amountArg(s, f[2], s.From, "")
		req.ContractName, req.MethodName = "$govern_token", "Transfer"
		req.Args["to"] = []byte(nameStr(s.To))
		req.Args["amount"] = []byte(s.Raw)
	case "lock!", "unlock!": // direct user call lock!:a:amt | lock!:initiator>account:locktype:amt
		s.From, s.Target, s.LT = f[1], f[1], typeOrdinary
		tok := f[2]
		if len(f) == 4 {
			it := strings.Split(f[1], ">")
			s.From, s.Target, s.LT, tok = it[0], it[1], f[2], f[3]
		}
		i.amountArg(s, tok, s.Target, s.LT)
		req.ContractName = "$govern_token"
		req.MethodName = map[string]string{"lock!": "Lock", "unlock!": "UnLock"}[s.Kind]
		req.Args["from"] = []byte(nameStr(s.Target))
		req.Args["amount"] = []byte(s.Raw)
		req.Args["lock_type"] = []byte(s.LT)
	case "propose": // propose:a (voting ends at tip+3, trigger at tip+4) | propose:a:l (tip+5 / tip+6)
		s.From = f[1]
		s.Amt = big.NewInt(proposalDeposit) // fixed by the contract; Propose takes no amount argument
		req.ContractName, req.MethodName = "$proposal", "Propose"
		stop, trig := tipH+shortStop, tipH+shortTrigger
		if len(f) == 3 && f[2] == "l" {
			stop, trig = tipH+longStop, tipH+longTrigger
		}
		if len(f) == 3 && f[2] == "x" {
			stop, trig = tipH+xlStop, tipH+xlTrigger
		}
		req.Args["proposal"] = []byte(proposalJSON(stop, trig))
	case "vote": // vote:p:b:amt ; amt 'pass' = what the proposal still lacks to reach min_vote_percent (at least 1)
		s.From = f[2]
		if f[3] == "pass" {
			n := new(big.Int).Sub(big.NewInt(passThreshold), i.cur.votes(f[1]))
			if n.Sign() <= 0 {
				n = big.NewInt(1)
			}
			s.Amt, s.Raw, s.HasAmt, s.Canon = n, n.String(), true, true
		} else {
			i.amountArg(s, f[3], s.From, typeOrdinary)
		}
		req.ContractName, req.MethodName = "$proposal", "Vote"
		req.Args["proposal_id"] = []byte(f[1])
		req.Args["amount"] = []byte(s.Raw)
	case "thaw": // thaw:p:a
		s.From = f[2]
		req.ContractName, req.MethodName = "$proposal", "Thaw"
		req.Args["proposal_id"] = []byte(f[1])
	case "nominate": // nominate:a:amt (self nomination) | nominate:initiator>candidate:amt
		s.From = f[1]
		cand := s.From
		if it := strings.Split(f[1], ">"); len(it) == 2 {
			s.From, s.Target, cand = it[0], it[1], it[1]
		}
		i.amountArg(s, f[2], s.From, typeTdpos)
		req.ContractName, req.MethodName = bktTdpos, "nominateCandidate"
		req.Args["candidate"] = []byte(nameStr(cand))
		req.Args["amount"] = []byte(s.Raw)
		req.Args["height"] = []byte(hsel("tip"))
	case "tvote": // tvote:voter:cand:amt
		s.From, s.To = f[1], f[2]
		i.amountArg(s, f[3], s.From, typeTdpos)
		req.ContractName, req.MethodName = bktTdpos, "voteCandidate"
		req.Args["candidate"] = []byte(nameStr(s.To))
		req.Args["amount"] = []byte(s.Raw)
		req.Args["height"] = []byte(hsel("tip"))
	case "trevoke": // trevoke:voter:cand:amt:tip|old
		s.From, s.To = f[1], f[2]
		i.amountArg(s, f[3], s.From, typeTdpos)
		req.ContractName, req.MethodName = bktTdpos, "revokeVote"
		req.Args["candidate"] = []byte(nameStr(s.To))
		req.Args["amount"] = []byte(s.Raw)
		req.Args["height"] = []byte(hsel(f[4]))
	case "unnominate": // unnominate:a:tip|old | unnominate:initiator>candidate:tip|old
		s.From = f[1]
		cand := s.From
		if it := strings.Split(f[1], ">"); len(it) == 2 {
			s.From, s.Target, cand = it[0], it[1], it[1]
		}
		req.ContractName, req.MethodName = bktTdpos, "revokeNominate"
		req.Args["candidate"] = []byte(nameStr(cand))
		req.Args["height"] = []byte(hsel(f[2]))
	default:
		panic("c19: bad event " + ev)
	}
	return s, req
}

func (i *inst) Apply(ev string) string {
	if ev == "sweep" {
		return i.sweep()
	}
	if ev == "names" {
		return i.nameSweep()
	}
	i.applied = append(i.applied, ev)
	i.seq++
	i.pre = i.cur
	i.preDue, i.preOpen = i.due(i.cur)
	i.rethaw = false
	var s *step
	var txs []*pb.Transaction
	if ev == "tick" {
		s = &step{Ev: ev, Kind: "tick"}
	} else {
		var req *protos.InvokeRequest
		s, req = i.request(ev)
		ini := addrOf(s.From)
		res, err := i.w.PreExec([]*protos.InvokeRequest{req}, ini, []string{ini})
		switch {
		case err != nil:
			s.Obs = "rejected"
		case len(res.Responses) != 1 || res.Responses[0].Status >= 400:
			s.Obs = "rejected(status)"
		default:
			tx := world.BuildTx(world.TxSpec{Initiator: keyName(s.From), Nonce: fmt.Sprintf("c19-%d-%s", i.seq, ev), Timestamp: int64(i.seq),
				Requests: res.Requests, InputsExt: res.Inputs, OutputsExt: res.Outputs})
			if err := i.w.Submit(tx); err != nil {
				// pre-executed but refused by VerifyTx / DoTx: nothing is committed
				s.Obs = "refused-by-verify"
			} else {
				txs = []*pb.Transaction{tx}
				s.Committed = true
			}
		}
	}
	if s.Kind == "tick" || s.Committed {
		old := i.cur.Raw[bktTdpos]
		h, timerTx, err := i.mine(txs)
		if err != nil {
			core.HarnessError("c19: %s after seq %d: %v", ev, i.seq, err)
		}
		s.Mined, s.Height = true, h
		i.tdposOld = old
		i.cur = readTables(i.w)
		if timerTx {
			s.Fired = firedProposals(i.cur, h)
		}
		s.Obs = "ok"
		if timerTx {
			s.Obs += fmt.Sprintf(" timer%v", s.Fired)
		}
	}
	i.book(s)
	switch {
	case s.HasAmt && !s.Canon:
		s.Obs += " amt=" + strconv.Quote(s.Raw)
	case s.Amt != nil:
		s.Obs += " amt=" + s.Amt.String()
	}
	i.last = s
	return s.Obs
}

// ---------------------------------------------------------------------------
// obligations: the reference bookkeeping of what every account has locked for
// which proposal. It is kept by the harness from the committed calls alone
// (Propose: the deposit; Vote: the amount; Thaw by the holder of the deposit:
// the deposit is released) and never reads the contract's own lock records.

// book records the obligations that the committed call s creates or releases.
func (i *inst) book(s *step) {
	f := strings.Split(s.Ev, ":")
	if s.Kind == "thaw" {
		// vacuity guard: a Thaw of a proposal whose deposit is already released
		if i.thawed[f[1]] && i.deposit[f[1]] == addrOf(s.From) {
			i.rethaw = true
		}
	}
	if !s.Committed {
		return
	}
	addTo := func(pid, addr string, n *big.Int) {
		m := i.oblig[pid]
		if m == nil {
			m = map[string]*big.Int{}
			i.oblig[pid] = m
		}
		if m[addr] == nil {
			m[addr] = new(big.Int)
		}
		m[addr].Add(m[addr], n)
	}
	switch s.Kind {
	case "propose":
		pid := i.cur.Raw[bktProposal]["id"]
		if pid == "" || pid == i.pre.Raw[bktProposal]["id"] {
			return // no new proposal came into being
		}
		addTo(pid, addrOf(s.From), big.NewInt(proposalDeposit))
		i.deposit[pid] = addrOf(s.From)
	case "vote":
		// an amount argument that is no number, or a negative one, has no agreed
		// value: nothing is booked (its acceptance is judged by the other oracles)
		if s.Amt != nil && s.Amt.Sign() > 0 && i.pre.status(f[1]) != "" {
			addTo(f[1], addrOf(s.From), s.Amt)
		}
	case "thaw":
		if i.deposit[f[1]] == addrOf(s.From) && !i.thawed[f[1]] {
			addTo(f[1], addrOf(s.From), big.NewInt(-proposalDeposit))
			i.thawed[f[1]] = true
		}
	}
}

// due sums, per account, what it has locked for proposals whose status in t is
// still "voting", and counts those proposals.
func (i *inst) due(t *tables) (map[string]*big.Int, map[string]int) {
	sum, open := map[string]*big.Int{}, map[string]int{}
	for pid, m := range i.oblig {
		if t.status(pid) != "voting" {
			continue
		}
		for addr, n := range m {
			if n.Sign() <= 0 {
				continue
			}
			if sum[addr] == nil {
				sum[addr] = new(big.Int)
			}
			sum[addr].Add(sum[addr], n)
			open[addr]++
		}
	}
	return sum, open
}

// obligKey renders the reference bookkeeping for the state key.
func (i *inst) obligKey() string {
	var out []string
	for pid, m := range i.oblig {
		for addr, n := range m {
			if n.Sign() != 0 {
				out = append(out, fmt.Sprintf("due/%s/%s=%s\n", pid, addr, n))
			}
		}
	}
	for pid, addr := range i.deposit {
		out = append(out, fmt.Sprintf("deposit/%s=%s thawed=%v\n", pid, addr, i.thawed[pid]))
	}
	sort.Strings(out)
	return strings.Join(out, "")
}

// firedProposals lists the proposals whose timer task was due at height h.
func firedProposals(t *tables, h int64) []string {
	var out []string
	prefix := fmt.Sprintf("%d_", h)
	for k, v := range t.Raw[bktTimer] {
		if !strings.HasPrefix(k, prefix) {
			continue
		}
		var trig struct {
			Method string                 `json:"method"`
			Args   map[string]interface{} `json:"args"`
		}
		if json.Unmarshal([]byte(v), &trig) != nil {
			continue
		}
		id64, _ := trig.Args["proposal_id"].(string)
		id, err := base64.StdEncoding.DecodeString(id64)
		if err != nil {
			continue
		}
		out = append(out, string(id))
	}
	sort.Strings(out)
	return out
}

func (i *inst) pendingTimers() bool {
	for k := range i.cur.Raw[bktTimer] {
		if j := strings.IndexByte(k, '_'); j > 0 {
			if h, err := strconv.ParseInt(k[:j], 10, 64); err == nil && h > i.tip.Height {
				return true
			}
		}
	}
	return false
}

func (i *inst) Key() string {
	var sb strings.Builder
	sb.WriteString(i.cur.canon())
	if i.pendingTimers() {
		fmt.Fprintf(&sb, "height=%d\n", i.tip.Height)
	}
	sb.WriteString(i.obligKey())
	// what a TDPoS call naming the previous height would read
	keys := make([]string, 0, len(i.tdposOld))
	for k := range i.tdposOld {
		keys = append(keys, k)
	}
	sort.Strings(keys)
	for _, k := range keys {
		fmt.Fprintf(&sb, "old/%s=%s\n", k, i.tdposOld[k])
	}
	s := sb.String()
	for _, a := range accounts {
		s = strings.ReplaceAll(s, addrOf(a), "@"+a)
	}
	return s
}

func (i *inst) proposalIDs() []string {
	n := 0
	if v, ok := i.cur.Raw[bktProposal]["id"]; ok {
		n, _ = strconv.Atoi(v)
	}
	var out []string
	max := 2
	if i.alpha == "obligations" {
		max = i.maxProps
	}
	for k := 1; k <= n && k <= max; k++ {
		out = append(out, strconv.Itoa(k))
	}
	return out
}

func (i *inst) Enabled() []string {
	return i.withSweeps(i.enabledCalls())
}

// withSweeps appends the two sweeps (self loops): the amount sweep in every
// state, the name sweep after histories of at most nameDepth calls.
func (i *inst) withSweeps(evs []string) []string {
	if i.alpha == "obligations" {
		return evs // this pass varies the life cycles, not the arguments
	}
	evs = append(evs, "sweep")
	if len(i.applied) <= i.nameDepth {
		evs = append(evs, "names")
	}
	return evs
}

func (i *inst) enabledCalls() []string {
	t := i.cur
	if !t.initialised() {
		// before initialisation every other call must fail: a few representatives
		return []string{"init", "xfer:a>b:1", "propose:a", "nominate:a:1", "tick"}
	}
	switch i.alpha {
	case "proposal":
		return i.enabledProposal()
	case "names":
		return i.enabledNames()
	case "obligations":
		return i.enabledObligations()
	}
	evs := []string{"init", "tick"}
	for _, from := range accounts {
		fb, has := t.Bal[addrOf(from)]
		if !has {
			evs = append(evs, "xfer:"+from+">a:1")
			continue
		}
		amts := []string{"0", "1", "500", "1000", "all", "all+1"}
		if from == "c" {
			amts = []string{"1", "all"}
		}
		if fb.lock(typeOrdinary).Sign() != 0 || fb.lock(typeTdpos).Sign() != 0 {
			amts = append(amts, "av", "av+1")
		}
		for _, to := range accounts {
			for _, a := range amts {
				evs = append(evs, fmt.Sprintf("xfer:%s>%s:%s", from, to, a))
			}
		}
	}
	evs = append(evs, "propose:a", "propose:b")
	for _, p := range i.proposalIDs() {
		for _, who := range []string{"a", "b"} {
			for _, a := range []string{"0", "500", "all"} {
				evs = append(evs, fmt.Sprintf("vote:%s:%s:%s", p, who, a))
			}
			evs = append(evs, fmt.Sprintf("thaw:%s:%s", p, who))
		}
	}
	for _, who := range []string{"a", "b"} {
		for _, a := range []string{"1", "500", "all"} {
			evs = append(evs, fmt.Sprintf("nominate:%s:%s", who, a))
		}
	}
	if len(t.Raw[bktTdpos]) > 0 || len(i.tdposOld) > 0 {
		for _, who := range []string{"a", "b"} {
			for _, a := range []string{"1", "500", "all"} {
				evs = append(evs, fmt.Sprintf("tvote:%s:a:%s", who, a))
			}
			for _, a := range []string{"1", "500"} {
				evs = append(evs, fmt.Sprintf("trevoke:%s:a:%s:tip", who, a), fmt.Sprintf("trevoke:%s:a:%s:old", who, a))
			}
			evs = append(evs, "unnominate:"+who+":tip", "unnominate:"+who+":old")
		}
	} else {
		// nothing nominated yet: these must fail
		evs = append(evs, "tvote:b:a:1", "trevoke:b:a:1:tip", "unnominate:a:tip")
	}
	evs = append(evs, "lock!:a:500", "unlock!:a:500")
	return evs
}

// enabledProposal is the reduced alphabet of the deeper proposal-lifecycle pass:
// transfers between a and b, Propose, Vote, Thaw and block ticks.
func (i *inst) enabledProposal() []string {
	evs := []string{"tick"}
	for _, ft := range []string{"a>b", "b>a"} {
		amts := []string{"500", "all"}
		fb := i.cur.bal(addrOf(ft[:1]))
		if fb.lock(typeOrdinary).Sign() != 0 {
			amts = []string{"500", "av", "av+1"}
		}
		for _, a := range amts {
			evs = append(evs, fmt.Sprintf("xfer:%s:%s", ft, a))
		}
	}
	ids := i.proposalIDs()
	if len(ids) < 2 {
		evs = append(evs, "propose:a", "propose:b")
	}
	for _, p := range ids {
		for _, who := range []string{"a", "b"} {
			for _, a := range []string{"500", "all"} {
				evs = append(evs, fmt.Sprintf("vote:%s:%s:%s", p, who, a))
			}
			evs = append(evs, fmt.Sprintf("thaw:%s:%s", p, who))
		}
	}
	return evs
}

// enabledObligations is the alphabet of the pass over overlapping proposal life
// cycles: up to maxProps proposals of a and b with a short or a long voting
// period, votes of 500 and of exactly what the proposal lacks to pass, Thaw by
// either account (repeatable: a Thaw stays offered after it succeeded) and
// block ticks (the timer tasks of the stop-vote and trigger heights).
func (i *inst) enabledObligations() []string {
	evs := []string{"tick"}
	ids := i.proposalIDs()
	n, _ := strconv.Atoi(i.cur.Raw[bktProposal]["id"])
	if idsSetup {
		// reduced alphabet: only proposals that are still voting, one kind of Propose
		if n < i.maxProps {
			evs = append(evs, "propose:b:l")
		}
		for _, p := range ids {
			if i.cur.status(p) != "voting" {
				continue
			}
			evs = append(evs, "vote:"+p+":a:500", "vote:"+p+":b:500", "thaw:"+p+":a", "thaw:"+p+":b")
		}
		return evs
	}
	if n < i.maxProps {
		evs = append(evs, "propose:a", "propose:a:l", "propose:b", "propose:b:l")
	}
	for _, p := range ids {
		for _, who := range []string{"a", "b"} {
			for _, a := range []string{"500", "pass"} {
				evs = append(evs, fmt.Sprintf("vote:%s:%s:%s", p, who, a))
			}
			evs = append(evs, fmt.Sprintf("thaw:%s:%s", p, who))
		}
	}
	return evs
}

// ---------------------------------------------------------------------------
// amount sweep
//
// The event "sweep" is offered in every state. It takes every method that has
// an amount argument, with every choice of its other arguments (the call
// sites), and sends it once with every amount string of sweepAmounts: negative,
// more than the total supply (up to beyond 64 bits), malformed, and - after
// histories of at most spellDepth calls - zero and alternative spellings of
// valid numbers. Each such call is pre-executed on this instance; pre-execution
// works on a sandbox and commits nothing, so a call it refuses is a rejected
// call. Every call it accepts is then executed as an ordinary transition on a
// fresh instance (same history + that call, through VerifyTx / DoTx / block /
// PlayForMiner) and judged by all the oracles. The sweep itself leaves the
// state as it was (a self loop), so the unusual amounts occupy the last
// position of every explored sequence; nothing is assumed about which of them
// ought to be refused.

type amountTok struct{ Tok, Class string }

const (
	clsNegative  = "negative"
	clsOver      = "over_supply"
	clsMalformed = "malformed"
	clsZero      = "zero"
	clsSpelling  = "spelling"
)

var sweepAmounts = []amountTok{
	// negative: small, state relative, the supply, beyond it, the 64-bit edges and beyond
	{"=-1", clsNegative}, {"=-500", clsNegative}, {"-all", clsNegative}, {"=-4500", clsNegative}, {"=-4501", clsNegative},
	{"=-9223372036854775807", clsNegative}, {"=-9223372036854775808", clsNegative}, {"=-9223372036854775809", clsNegative},
	{"=-18446744073709551615", clsNegative}, {"=-18446744073709551617", clsNegative}, {"=-100000000000000000000000000000000", clsNegative},
	// more than the total supply: by one, the 64-bit edges, values that wrap to 1 / 500 in 64 bits, 10^32
	{"=4501", clsOver}, {"=9223372036854775807", clsOver}, {"=9223372036854775808", clsOver}, {"=18446744073709551615", clsOver},
	{"=18446744073709551616", clsOver}, {"=18446744073709551617", clsOver}, {"=18446744073709552116", clsOver}, {"=100000000000000000000000000000000", clsOver},
	// malformed: empty, blanks, signs only, surrounding white space, hex, exponent, fraction, separators, double signs, non-ASCII digits
	{"=", clsMalformed}, {"= ", clsMalformed}, {"=abc", clsMalformed}, {"=-", clsMalformed}, {"=+", clsMalformed},
	{"= 500", clsMalformed}, {"=500 ", clsMalformed}, {"=\t500", clsMalformed}, {"=500\n", clsMalformed}, {"=- 500", clsMalformed},
	{"=0x1f4", clsMalformed}, {"=1f4", clsMalformed}, {"=5e2", clsMalformed}, {"=1.5", clsMalformed}, {"=500.0", clsMalformed},
	{"=1_000", clsMalformed}, {"=1,000", clsMalformed}, {"=--500", clsMalformed}, {"=+-500", clsMalformed}, {"=-+500", clsMalformed},
	{"=٥٠٠", clsMalformed}, {"=NaN", clsMalformed}, {"=Inf", clsMalformed},
	// zero in several spellings
	{"=0", clsZero}, {"=-0", clsZero}, {"=+0", clsZero}, {"=00", clsZero},
	// valid positive numbers spelled unusually
	{"=+500", clsSpelling}, {"=0500", clsSpelling}, {"=+1", clsSpelling},
}

func validClass(c string) bool { return c == clsZero || c == clsSpelling }

type probe struct{ Ev, Class string }

// probeSites lists the call sites of the current state as event templates with
// one %s for the amount token.
func (i *inst) probeSites() []string {
	var out []string
	pids := i.proposalIDs()
	if len(pids) == 0 {
		pids = []string{"1"} // no such proposal
	}
	if i.alpha == "proposal" {
		for _, ft := range []string{"a>b", "b>a", "a>a", "a>c", "c>a"} {
			out = append(out, "xfer:"+ft+":%s")
		}
		for _, p := range pids {
			for _, who := range []string{"a", "b"} {
				out = append(out, "vote:"+p+":"+who+":%s")
			}
		}
		return out
	}
	for _, from := range accounts {
		for _, to := range accounts {
			out = append(out, "xfer:"+from+">"+to+":%s")
		}
	}
	for _, p := range pids {
		for _, who := range accounts {
			out = append(out, "vote:"+p+":"+who+":%s")
		}
	}
	for _, who := range accounts {
		out = append(out, "nominate:"+who+":%s")
	}
	for _, who := range accounts {
		for _, cand := range []string{"a", "b"} {
			out = append(out, "tvote:"+who+":"+cand+":%s")
		}
	}
	for _, who := range []string{"a", "b"} {
		for _, cand := range []string{"a", "b"} {
			out = append(out, "trevoke:"+who+":"+cand+":%s:tip", "trevoke:"+who+":"+cand+":%s:old")
		}
	}
	for _, kind := range []string{"lock!", "unlock!"} {
		for _, ini := range []string{"a", "b"} {
			for _, target := range []string{"a", "b"} {
				for _, lt := range lockTypes {
					out = append(out, kind+":"+ini+">"+target+":"+lt+":%s")
				}
			}
		}
	}
	return out
}

func (i *inst) probes() []probe {
	var out []probe
	valid := len(i.applied) <= i.spellDepth
	for _, site := range i.probeSites() {
		for _, a := range sweepAmounts {
			if validClass(a.Class) && !valid {
				continue
			}
			out = append(out, probe{Ev: fmt.Sprintf(site, a.Tok), Class: a.Class})
		}
	}
	return out
}

func (i *inst) sweep() string {
	i.pre = i.cur
	i.sweepViol = nil
	before := i.Key()
	n, accepted := 0, 0
	for _, p := range i.probes() {
		st, req := i.request(p.Ev)
		if st.Amt != nil && st.Amt.Sign() == 0 && !validClass(p.Class) {
			continue // '-all' of an empty balance is "-0": left to the zero class
		}
		n++
		ini := addrOf(st.From)
		res, err := i.w.PreExec([]*protos.InvokeRequest{req}, ini, []string{ini})
		if err != nil || len(res.Responses) != 1 || res.Responses[0].Status >= 400 {
			i.cnt.add("probe:" + st.Kind + ":" + p.Class + ":rejected")
			continue
		}
		accepted++
		i.runProbe(p, before, "probe")
	}
	// what the pre-executions left behind (nothing, if a refused call leaves no trace)
	i.cur = readTables(i.w)
	s := &step{Ev: "sweep", Kind: "sweep"}
	s.Obs = fmt.Sprintf("sweep: %d calls, %d accepted by pre-execution", n, accepted)
	i.last = s
	return s.Obs
}

// runProbe executes one call that pre-execution accepted as an ordinary
// transition on a fresh instance and applies the oracles to it.
func (i *inst) runProbe(p probe, before, tag string) {
	j := newInst(i.cnt, nil, i.alpha)
	defer j.Close()
	for _, e := range i.applied {
		j.Apply(e)
	}
	if k := j.Key(); k != before {
		core.HarnessError("c19: nondeterminism: replaying %v for probe %q reached another state", i.applied, p.Ev)
	}
	j.probeClass, j.probeTag = p.Class, tag
	j.Apply(p.Ev)
	hist := append(append([]string(nil), i.applied...), p.Ev)
	vs := j.check(hist)
	if len(vs) == 0 {
		return
	}
	if i.col != nil {
		i.col.add(vs, hist)
		return
	}
	i.sweepViol = append(i.sweepViol, vs...)
}

// ---------------------------------------------------------------------------
// oracles

func (i *inst) Check(hist []string) []core.Violation {
	out := i.check(hist)
	if i.col != nil {
		// exploration: the collector reports the smallest counterexample per key at the end
		i.col.add(out, hist)
		return nil
	}
	return out
}

func (i *inst) check(hist []string) []core.Violation {
	s := i.last
	if s == nil {
		if len(i.cur.Bal) != 0 || i.cur.initialised() {
			return []core.Violation{{Key: "c19.initial_state_not_empty", Summary: "governance token tables are not empty before Init", Case: caseOf(hist)}}
		}
		return nil
	}
	pre, post := i.pre, i.cur
	var out []core.Violation
	// a call that names an account by a non-canonical spelling (name alphabet):
	// its violation keys carry the suffix .alias_name
	alias := isAliasTok(s.To) || isAliasTok(s.Target)
	add := func(key, summary, expected, observed string) {
		if alias {
			if !strings.Contains(key, "alias_name") {
				key += ".alias_name"
			}
			summary += fmt.Sprintf(" [account-name arguments: %v]", namesUsed([]string{s.Ev}))
		}
		if len(s.Fired) > 0 {
			summary += fmt.Sprintf(" (the block of %s also ran the due timer task of proposal %v)", s.Ev, s.Fired)
		}
		out = append(out, core.Violation{Key: key, Summary: fmt.Sprintf("after %v: %s", hist, summary), Case: caseOf(hist), Expected: expected, Observed: observed})
	}
	if s.Kind == "sweep" || s.Kind == "names" {
		// the pre-executions of the sweep committed nothing
		i.cnt.add(s.Kind + ":states")
		if s.Kind == "names" {
			// vacuity guard: swept states in which a record exists under a name
			// that is no canonical address
			aliases()
			for _, addr := range unionAddrs(post, post) {
				if tok, ok := aliasByID[addr]; !ok || isAliasTok(tok) {
					i.cnt.add("names:states_with_alias_records")
					break
				}
			}
		}
		if pre.canon() != post.canon() {
			add("c19.failed_call_left_trace."+s.Kind, "the pre-executions of the "+map[string]string{"sweep": "amount", "names": "name"}[s.Kind]+" sweep changed the tables", pre.canon(), post.canon())
		}
		return append(out, i.sweepViol...)
	}
	amtNote := ""
	if s.HasAmt {
		amtNote = fmt.Sprintf(" (amount argument %q)", s.Raw)
	}
	outcome := "rejected"
	if s.Committed {
		outcome = "committed"
	} else if s.Kind == "tick" {
		outcome = "mined"
	}
	if i.probeClass != "" {
		// a sweep call that pre-execution accepted ("rejected" here: refused by VerifyTx / DoTx)
		if outcome == "rejected" {
			outcome = "refused"
		}
		i.cnt.add(i.probeTag + ":" + s.Kind + ":" + i.probeClass + ":" + outcome)
		if s.Committed && pre.canon() != post.canon() {
			i.cnt.add(i.probeTag + "_changed_state:" + i.probeClass)
		}
	} else {
		i.cnt.add(s.Kind + ":" + outcome)
		if len(s.Fired) > 0 {
			i.cnt.add("timer_fired_blocks")
		}
		if i.rethaw {
			// vacuity guard of the obligations dimension: Thaw of an already thawed proposal
			i.cnt.add("oblig:repeated_thaw:" + outcome)
			if d := i.preDue[addrOf(s.From)]; d != nil && d.Sign() > 0 {
				i.cnt.add("oblig:repeated_thaw_while_caller_owes_another_open_proposal:" + outcome)
			}
		}
		for k, v := range post.Raw[bktProposal] {
			if _, err := strconv.Atoi(k); err != nil {
				continue
			}
			var pr struct {
				Status string `json:"status"`
			}
			if json.Unmarshal([]byte(v), &pr) == nil {
				i.cnt.add("proposal_status:" + pr.Status)
			}
		}
	}

	if s.Committed && s.Kind == "xfer" && alias {
		// vacuity guard: did the receiving name have a record before the call
		if _, had := pre.Bal[nameStr(s.To)]; had {
			i.cnt.add("names:transfers_to_existing_alias_record")
		} else {
			i.cnt.add("names:transfers_to_new_alias_record")
		}
	}

	// a call that failed leaves the tables as they were
	if !s.Mined {
		if pre.canon() != post.canon() {
			add("c19.failed_call_left_trace."+s.Kind, "a rejected call changed the tables", pre.canon(), post.canon())
		}
		return out
	}

	// well-formed records
	for addr, b := range post.Bal {
		if b.Bad != "" {
			add("c19.bad_record."+s.Kind, fmt.Sprintf("balance record of %s does not parse: %q", nameOfAddr(addr), b.Bad), "", "")
		}
	}

	// 1. conservation
	supply := big.NewInt(quotaA + quotaB)
	if post.initialised() {
		ts, ok := new(big.Int).SetString(post.Raw[bktGov]["totalSupply"], 10)
		if !ok || ts.Cmp(supply) != 0 {
			add("c19.total_supply_changed."+s.Kind, "totalSupply differs from the sum of the genesis quotas", supply.String(), post.Raw[bktGov]["totalSupply"])
		}
		before := supply
		if pre.initialised() {
			before = pre.sum()
		}
		after := post.sum()
		if after.Cmp(before) != 0 {
			key := "c19.conservation." + s.Kind
			if s.Kind == "xfer" && s.From == s.To {
				key += ".self"
				if after.Cmp(before) > 0 {
					key = "c19.self_transfer_mints"
				}
			}
			if s.Kind == "xfer" && alias && after.Cmp(before) > 0 {
				key = "c19.transfer_to_alias_name_mints"
			}
			add(key, fmt.Sprintf("%s changed the sum of all balances from %s to %s (total supply %s)", s.Ev, before, after, supply),
				"sum of total_balance = "+before.String(), "sum of total_balance = "+after.String())
		}
		if s.Kind == "init" && pre.initialised() {
			add("c19.reinit_accepted", "a second Init was committed", "rejected", "committed")
		}
		if s.Kind == "init" && !pre.initialised() {
			if post.bal(addrOf("a")).Total.Cmp(big.NewInt(quotaA)) != 0 || post.bal(addrOf("b")).Total.Cmp(big.NewInt(quotaB)) != 0 || len(post.Bal) != 2 {
				add("c19.init_distribution", "Init did not distribute the genesis quotas", fmt.Sprintf("a=%d b=%d", quotaA, quotaB), fmt.Sprintf("a=%s b=%s records=%d", post.bal(addrOf("a")), post.bal(addrOf("b")), len(post.Bal)))
			}
		}
	} else if len(post.Bal) != 0 {
		add("c19.balances_before_init."+s.Kind, "balance records exist although the token is not initialised", "", "")
	}

	// negative amounts (flagged at the step that made them negative / more negative)
	unlockKinds := map[string]bool{"thaw": true, "tick": true, "trevoke": true, "unnominate": true, "unlock!": true}
	for addr, b := range post.Bal {
		if b.Bad != "" {
			continue
		}
		pb0 := pre.bal(addr)
		if b.Total.Sign() < 0 && b.Total.Cmp(pb0.Total) < 0 {
			add("c19.negative_balance."+s.Kind, fmt.Sprintf("%s left %s with total_balance %s", s.Ev, nameOfAddr(addr), b.Total), ">= 0", b.Total.String())
		}
		for _, lt := range sortedTypes(b, pb0) {
			if b.lock(lt).Sign() < 0 && b.lock(lt).Cmp(pb0.lock(lt)) < 0 {
				key := "c19.negative_lock." + s.Kind
				if unlockKinds[s.Kind] || len(s.Fired) > 0 {
					key = "c19.unlock_more_than_locked"
				}
				add(key, fmt.Sprintf("%s unlocked more than was locked: %s locked[%s] went from %s to %s", s.Ev, nameOfAddr(addr), lt, pb0.lock(lt), b.lock(lt)),
					"locked >= 0 (unlock of more than the locked amount refused)", fmt.Sprintf("locked[%s] = %s", lt, b.lock(lt)))
			}
		}
	}

	// 2. locked amounts change only through lock / unlock operations on that account
	allowed := map[string]bool{}
	switch s.Kind {
	case "propose", "vote", "thaw":
		allowed[addrOf(s.From)+"/"+typeOrdinary] = true
	case "lock!", "unlock!":
		if s.From == s.Target { // never one account's direct call on another account's locks
			allowed[addrOf(s.Target)+"/"+s.LT] = true
		}
	case "nominate", "tvote", "trevoke", "unnominate":
		allowed[addrOf(s.From)+"/"+typeTdpos] = true
	}
	for _, p := range s.Fired {
		prefix := "lock_" + p + "_"
		for k := range post.Raw[bktProposal] {
			if strings.HasPrefix(k, prefix) {
				allowed[strings.TrimPrefix(k, prefix)+"/"+typeOrdinary] = true
			}
		}
	}
	if s.Kind != "init" || pre.initialised() {
		for _, addr := range unionAddrs(pre, post) {
			b0, b1 := pre.bal(addr), post.bal(addr)
			for _, lt := range sortedTypes(b0, b1) {
				if b0.lock(lt).Cmp(b1.lock(lt)) == 0 || allowed[addr+"/"+lt] {
					continue
				}
				role := "other"
				if s.From != "" && addr == addrOf(s.From) {
					role = "self"
				}
				if s.To != "" && addr == nameStr(s.To) && (s.Kind == "xfer") {
					role = "receiver"
				}
				key := fmt.Sprintf("c19.lock_changed_by.%s.%s.%s", s.Kind, role, lt)
				if s.Kind == "xfer" && role == "receiver" && b1.lock(lt).Sign() == 0 {
					key = "c19.incoming_transfer_wipes_locks"
				}
				add(key, fmt.Sprintf("%s changed locked[%s] of %s from %s to %s although it is no lock / unlock of that type on that account", s.Ev, lt, nameOfAddr(addr), b0.lock(lt), b1.lock(lt)),
					fmt.Sprintf("locked[%s] of %s stays %s", lt, nameOfAddr(addr), b0.lock(lt)), b1.lock(lt).String())
			}
		}
	}

	// 2b. a lock / unlock of amount n moves the locked amount by exactly n (only
	// judged when no timer task ran in the same block: that may unlock as well)
	if s.Committed && len(s.Fired) == 0 {
		var want *big.Int
		lt := typeOrdinary
		// an amount argument that is not the canonical rendering of a non-negative
		// integer has no agreed value: such a call is judged by direction only (2c)
		plain := !s.HasAmt || s.Canon
		switch {
		case !plain:
		case s.Kind == "propose" || s.Kind == "vote":
			want = new(big.Int).Set(s.Amt)
		case s.Kind == "nominate" || s.Kind == "tvote":
			want, lt = new(big.Int).Set(s.Amt), typeTdpos
		case s.Kind == "trevoke":
			want, lt = new(big.Int).Neg(s.Amt), typeTdpos
		case s.Kind == "thaw":
			f := strings.Split(s.Ev, ":")
			if rec, ok := new(big.Int).SetString(pre.Raw[bktProposal]["lock_"+f[1]+"_"+addrOf(s.From)], 10); ok {
				want = rec.Neg(rec)
			}
		}
		if want != nil {
			addr := addrOf(s.From)
			got := new(big.Int).Sub(post.bal(addr).lock(lt), pre.bal(addr).lock(lt))
			if got.Cmp(want) != 0 {
				add("c19.lock_delta_mismatch."+s.Kind, fmt.Sprintf("%s should move locked[%s] of %s by %s, it moved by %s (%s -> %s)", s.Ev, lt, s.From, want, got, pre.bal(addr).lock(lt), post.bal(addr).lock(lt)),
					"delta "+want.String(), "delta "+got.String())
			}
		}
	}

	// 2c. direction: a locking call never lowers a locked amount, an unlocking
	// call never raises one - whatever its amount argument looks like (a negative
	// lock is no unlock without the checks). Not judged when a timer task ran in
	// the same block (it unlocks as well).
	if s.Committed && len(s.Fired) == 0 {
		dir := map[string]int{"propose": 1, "vote": 1, "nominate": 1, "tvote": 1, "lock!": 1,
			"thaw": -1, "trevoke": -1, "unnominate": -1, "unlock!": -1}[s.Kind]
		if dir != 0 {
			for _, addr := range unionAddrs(pre, post) {
				b0, b1 := pre.bal(addr), post.bal(addr)
				for _, lt := range sortedTypes(b0, b1) {
					if d := b1.lock(lt).Cmp(b0.lock(lt)); d != 0 && d != dir {
						what := map[int]string{1: "locking call lowered", -1: "unlocking call raised"}[dir]
						add(fmt.Sprintf("c19.lock_direction.%s.%s", s.Kind, lt), fmt.Sprintf("%s%s: a %s locked[%s] of %s from %s to %s", s.Ev, amtNote, what, lt, nameOfAddr(addr), b0.lock(lt), b1.lock(lt)),
							fmt.Sprintf("locked[%s] of %s not %s", lt, nameOfAddr(addr), map[int]string{1: "below", -1: "above"}[dir]+" "+b0.lock(lt).String()), b1.lock(lt).String())
					}
				}
			}
		}
	}

	// 3. a committed transfer never leaves the sender below one of its locked amounts
	senderBelow := map[string]bool{}
	if s.Kind == "xfer" && s.Committed {
		b0, b1 := pre.bal(addrOf(s.From)), post.bal(addrOf(s.From))
		for _, lt := range sortedTypes(b0, b0) {
			if b0.lock(lt).Sign() > 0 && b1.Total.Cmp(b0.lock(lt)) < 0 {
				senderBelow[lt] = true
				add("c19.transfer_below_lock."+lt, fmt.Sprintf("%s (amount %q) was committed although %s had %s locked as %s: balance %s -> %s", s.Ev, s.Raw, s.From, b0.lock(lt), lt, b0.Total, b1.Total),
					"transfer refused", fmt.Sprintf("total_balance %s < locked[%s] %s", b1.Total, lt, b0.lock(lt)))
			}
		}
	}

	// 3b. in every reachable state every account's balance covers each of its
	// locked amounts, whoever made the call (flagged at the step that opens or
	// widens the gap)
	roleOf := func(addr string) string {
		switch {
		case s.From != "" && addr == addrOf(s.From):
			return "self"
		case s.Kind == "xfer" && s.To != "" && addr == nameStr(s.To):
			return "receiver"
		case s.Target != "" && addr == nameStr(s.Target):
			return "named"
		case s.To != "" && addr == nameStr(s.To):
			return "named"
		}
		return "other"
	}
	if pre.initialised() {
		for _, addr := range unionAddrs(pre, post) {
			b0, b1 := pre.bal(addr), post.bal(addr)
			if b0.Bad != "" || b1.Bad != "" {
				continue
			}
			role := roleOf(addr)
			for _, lt := range sortedTypes(b0, b1) {
				gap0 := new(big.Int).Sub(b0.lock(lt), b0.Total)
				gap1 := new(big.Int).Sub(b1.lock(lt), b1.Total)
				if b1.lock(lt).Sign() <= 0 || gap1.Sign() <= 0 || gap1.Cmp(gap0) <= 0 {
					continue
				}
				if s.Kind == "xfer" && role == "self" && senderBelow[lt] {
					continue // reported by 3
				}
				add(fmt.Sprintf("c19.balance_below_lock.%s.%s.%s", s.Kind, role, lt),
					fmt.Sprintf("%s%s left %s with balance %s below its %s lock of %s (before: balance %s, locked %s)", s.Ev, amtNote, nameOfAddr(addr), b1.Total, lt, b1.lock(lt), b0.Total, b0.lock(lt)),
					fmt.Sprintf("total_balance of %s >= locked[%s]", nameOfAddr(addr), lt), fmt.Sprintf("total_balance %s < locked[%s] %s", b1.Total, lt, b1.lock(lt)))
			}
		}
	}

	// 3d. obligations: in every reachable state the ordinary lock of an account
	// covers what it has locked (reference bookkeeping: deposits and votes of the
	// committed calls) for the proposals that are still being voted on. A lock that
	// is released while the proposal it was made for is still open - by whatever
	// call or timer task, of this or of another proposal - shows up here. Flagged
	// at the step that opens or widens the shortfall.
	if pre.initialised() {
		due, open := i.due(post)
		addrs := make([]string, 0, len(due))
		for addr := range due {
			addrs = append(addrs, addr)
		}
		sort.Strings(addrs)
		multi := false
		for _, addr := range addrs {
			if open[addr] >= 2 {
				multi = true
			}
			short1 := new(big.Int).Sub(due[addr], post.bal(addr).lock(typeOrdinary))
			short0 := new(big.Int)
			if d := i.preDue[addr]; d != nil {
				short0.Sub(d, pre.bal(addr).lock(typeOrdinary))
			}
			if short1.Sign() <= 0 || short1.Cmp(short0) <= 0 {
				continue
			}
			by := s.Kind
			if len(s.Fired) > 0 {
				by = "timer_task"
			}
			var openIDs []string
			for pid, m := range i.oblig {
				if post.status(pid) == "voting" && m[addr] != nil && m[addr].Sign() > 0 {
					openIDs = append(openIDs, pid+":"+m[addr].String())
				}
			}
			sort.Strings(openIDs)
			add("c19.lock_below_open_obligations."+by,
				fmt.Sprintf("%s%s left %s with an ordinary lock of %s (before: %s) although it has %s locked for proposals that are still being voted on (proposal:amount %v)", s.Ev, amtNote, nameOfAddr(addr), post.bal(addr).lock(typeOrdinary), pre.bal(addr).lock(typeOrdinary), due[addr], openIDs),
				fmt.Sprintf("locked[ordinary] of %s >= %s", nameOfAddr(addr), due[addr]), "locked[ordinary] = "+post.bal(addr).lock(typeOrdinary).String())
		}
		if i.probeClass == "" {
			// vacuity guards of the obligations dimension
			i.cnt.add("oblig:transitions_judged")
			if len(due) > 0 {
				i.cnt.add("oblig:states_with_open_obligations")
			}
			if multi {
				i.cnt.add("oblig:states_where_one_account_owes_two_open_proposals")
			}
			for _, p := range s.Fired {
				st0, st1 := pre.status(p), post.status(p)
				if st0 == "voting" && st1 == "passed" {
					i.cnt.add("oblig:tally_blocks_proposal_passed")
				}
				if st0 == "voting" && st1 == "rejected" {
					i.cnt.add("oblig:tally_blocks_proposal_rejected")
				}
				if st0 == "passed" && st1 != "passed" {
					i.cnt.add("oblig:trigger_blocks")
					owes, owesAsMuch := false, false
					for addr, n := range i.oblig[p] {
						if n.Sign() > 0 && due[addr] != nil && due[addr].Sign() > 0 {
							owes = true
							if due[addr].Cmp(n) >= 0 {
								owesAsMuch = true
							}
						}
					}
					if owes {
						i.cnt.add("oblig:trigger_blocks_where_a_voter_owes_another_open_proposal")
					}
					if owesAsMuch {
						i.cnt.add("oblig:trigger_blocks_where_a_voter_owes_another_open_proposal_at_least_as_much")
					}
				}
			}
		}
	}

	// 3c. a balance goes down only through a transfer that this very account
	// initiated: no call lowers the balance of anybody but its initiator, and no
	// call other than Transfer lowers a balance at all
	if pre.initialised() {
		for _, addr := range unionAddrs(pre, post) {
			b0, b1 := pre.bal(addr), post.bal(addr)
			if b0.Bad != "" || b1.Bad != "" || b1.Total.Cmp(b0.Total) >= 0 {
				continue
			}
			role := roleOf(addr)
			if s.Kind == "xfer" && s.Committed && role == "self" {
				continue
			}
			who := "nobody (block without a call)"
			if s.From != "" {
				who = s.From
			}
			add(fmt.Sprintf("c19.balance_decreased_without_own_transfer.%s.%s", s.Kind, role),
				fmt.Sprintf("%s%s, initiated by %s, lowered the balance of %s from %s to %s", s.Ev, amtNote, who, nameOfAddr(addr), b0.Total, b1.Total),
				fmt.Sprintf("total_balance of %s stays >= %s", nameOfAddr(addr), b0.Total), b1.Total.String())
		}
	}

	// 4. the state's query agrees with the table: for the accounts of the
	// alphabet and for every other name a record is stored under
	queried := map[string]bool{}
	var qnames []string
	for _, a := range accounts {
		queried[addrOf(a)] = true
		qnames = append(qnames, addrOf(a))
	}
	for _, addr := range unionAddrs(post, post) {
		if !queried[addr] {
			qnames = append(qnames, addr)
		}
	}
	for _, addr := range qnames {
		a := nameOfAddr(addr)
		got, err := i.w.State.QueryAccountGovernTokenBalance(addr)
		rec, has := post.Bal[addr]
		switch {
		case has && rec.Bad != "":
		case has && (err != nil || got == nil):
			add("c19.query_disagrees."+s.Kind, fmt.Sprintf("QueryAccountGovernTokenBalance(%s) failed although the table has %s", a, rec), rec.Total.String(), fmt.Sprint(err))
		case has && got.TotalBalance != rec.Total.String():
			add("c19.query_disagrees."+s.Kind, fmt.Sprintf("QueryAccountGovernTokenBalance(%s) = %s, table has %s", a, got.TotalBalance, rec.Total), rec.Total.String(), got.TotalBalance)
		case !has && err == nil && got != nil && got.TotalBalance != "0" && got.TotalBalance != "":
			add("c19.query_disagrees."+s.Kind, fmt.Sprintf("QueryAccountGovernTokenBalance(%s) = %s, table has no record", a, got.TotalBalance), "no balance", got.TotalBalance)
		}
	}
	return out
}

func sortedTypes(bs ...*balance) []string {
	seen := map[string]bool{}
	for _, b := range bs {
		for k := range b.Locked {
			seen[k] = true
		}
	}
	out := make([]string, 0, len(seen))
	for k := range seen {
		out = append(out, k)
	}
	sort.Strings(out)
	return out
}

func unionAddrs(a, b *tables) []string {
	seen := map[string]bool{}
	for k := range a.Bal {
		seen[k] = true
	}
	for k := range b.Bal {
		seen[k] = true
	}
	out := make([]string, 0, len(seen))
	for k := range seen {
		out = append(out, k)
	}
	sort.Strings(out)
	return out
}

func caseOf(hist []string) map[string]interface{} {
	stale, xfer := false, false
	for k, e := range hist {
		if strings.HasSuffix(e, ":old") {
			stale = true
		}
		if strings.HasPrefix(e, "xfer:") && k < len(hist)-1 {
			xfer = true
		}
	}
	c := map[string]interface{}{"history": append([]string(nil), hist...), "quotas": map[string]int{"a": quotaA, "b": quotaB},
		"uses_height_before_tip": stale, "after_earlier_transfer": xfer}
	if xposMode {
		c["consensus"] = "xpos" // TDPoS with bft_config: methods live in $xpos
	}
	if idsSetup {
		c["setup"] = "ids" // the history starts after: init, propose:a:x, (propose:a, thaw:k:a) for k = 2..9
	}
	if nu := namesUsed(hist); len(nu) > 0 {
		c["account_name_arguments"] = nu // token -> the string sent (Go-quoted)
	}
	return c
}

// ---------------------------------------------------------------------------

func run(tier core.Tier) *core.Report {
	rep := core.NewReport("C19", tier, "model_checking")
	world.Init()
	vhook.Capture()
	// many short-lived worlds: trade memory for fewer collections
	defer debug.SetGCPercent(debug.SetGCPercent(400))
	depth, deep := 4, 6
	// zero / alternative spellings of valid amounts are legitimately accepted, so
	// each of them costs a full transition: swept after histories up to this length
	spell, spellDeep := 2, 3
	// the name sweep: nearly every transfer to an unusual name is legitimately
	// accepted (a fresh account), so it is swept after histories up to this length
	// (full, proposal, names pass); nmDepth is the bound of the pass "names"
	// (quick: the proposal pass' states after <= 2 calls are states of the full
	// pass, which sweeps them)
	nameFull, nameDeep, nameNames, nmDepth := 2, 1, 2, 3
	// pass "obligations": bound and number of proposals
	obDepth, obProps := 5, 2
	if tier == core.Thorough {
		depth, deep = 5, 7
		spell, spellDeep = 3, 4
		nameFull, nameDeep, nameNames, nmDepth = 2, 3, 3, 4
		obDepth, obProps = 6, 3
	}
	cnt := &counters{m: map[string]int{}}
	col := &collector{m: map[string]*found{}}
	cfg := xplore.Config{Name: "c19", New: func() xplore.Instance { return newInst(cnt, col, "full", spell, nameFull) }, MaxDepth: depth, Report: rep}
	// deeper pass over the proposal life cycle (reduced alphabet)
	cfg2 := xplore.Config{Name: "c19/proposal", New: func() xplore.Instance { return newInst(cnt, col, "proposal", spellDeep, nameDeep) }, MaxDepth: deep, Report: rep}
	// pass over histories in which records under alias names exist (reduced alphabet)
	cfg3 := xplore.Config{Name: "c19/names", New: func() xplore.Instance { return newInst(cnt, col, "names", spell, nameNames) }, MaxDepth: nmDepth, Report: rep}
	// pass over overlapping proposal life cycles (short / long voting periods,
	// votes that make a proposal pass, repeated Thaw), no sweeps
	cfg4 := xplore.Config{Name: "c19/obligations", New: func() xplore.Instance {
		i := newInst(cnt, col, "obligations")
		i.maxProps = obProps
		return i
	}, MaxDepth: obDepth, Report: rep}
	// pass "xpos": the full alphabet on a chain whose TDPoS runs with bft_config (methods in $xpos)
	xpDepth := 3
	if tier == core.Thorough {
		xpDepth = 4
	}
	cfg5 := xplore.Config{Name: "c19/xpos", New: func() xplore.Instance { return newInst(cnt, col, "full", 1, 1) }, MaxDepth: xpDepth, Report: rep}
	// pass "ids": overlapping life cycles of proposals 1 and 10, 11 (see idsSetup)
	idDepth := 4
	if tier == core.Thorough {
		idDepth = 5
	}
	cfg6 := xplore.Config{Name: "c19/ids", New: func() xplore.Instance { return newInst(cnt, col, "obligations") }, MaxDepth: idDepth, Report: rep}
	var st, st2, st3, st4, st5, st6 xplore.Stats
	if tier == core.Thorough {
		// the cheaper passes first: the full pass may use up the budget
		st3 = xplore.Explore(cfg3)
		st4 = xplore.Explore(cfg4)
		st2 = xplore.Explore(cfg2)
		st = xplore.Explore(cfg)
	} else {
		st4 = xplore.Explore(cfg4)
		st = xplore.Explore(cfg)
		st2 = xplore.Explore(cfg2)
		st3 = xplore.Explore(cfg3)
	}
	setXpos(true)
	st5 = xplore.Explore(cfg5)
	setXpos(false)
	idsSetup = true
	st6 = xplore.Explore(cfg6)
	idsSetup = false
	// one concrete trace with its observations as the first sample
	sample := []string{"init", "propose:a", "vote:1:a:all", "vote:1:b:500", "tick", "xfer:a>b:all"}
	obs, _ := xplore.Replay(func() xplore.Instance { return newInst(&counters{m: map[string]int{}}, nil, "full") }, sample)
	rep.Sample(map[string]interface{}{"history": sample, "observations": obs})
	// and one sequence ending in calls of the amount sweep
	sample2 := []string{"init", "nominate:b:all", "xfer:a>b:=-1", "vote:1:a:=+500", "nominate:a:=18446744073709551617", "xfer:b>a:=0x1f4"}
	obs2, _ := xplore.Replay(func() xplore.Instance { return newInst(&counters{m: map[string]int{}}, nil, "full") }, sample2)
	rep.Sample(map[string]interface{}{"history": sample2, "observations": obs2, "note": "'=<literal>' sends the literal as the amount argument"})
	// and one with account names of the name alphabet
	sample3 := []string{"init", "xfer:a>a~sp_t:500", "xfer:a>a~sp_t:1", "xfer:b>a~lower:av", "nominate:a>a~last:1", "tvote:b:a~last:1", "xfer:a>~empty:1", "lock!:a>a~sp_t:ordinary:1"}
	obs3, _ := xplore.Replay(func() xplore.Instance { return newInst(&counters{m: map[string]int{}}, nil, "full") }, sample3)
	rep.Sample(map[string]interface{}{"history": sample3, "observations": obs3, "account_name_arguments": namesUsed(sample3), "note": "'<base>~<form>' / '~<abs>' send that spelling as the account-name argument (name_sweep.name_alphabet)"})
	st.Fill(rep, "full.")
	st2.Fill(rep, "proposal.")
	st3.Fill(rep, "names.")
	st4.Fill(rep, "obligations.")
	st5.Fill(rep, "xpos.")
	st6.Fill(rep, "ids.")
	rep.Set("ids.rule", fmt.Sprintf("pass 'ids': every instance first performs, by real calls, Init, Propose by a with voting until tip+%d (proposal 1), and Propose + Thaw by a for proposals 2..9 (17 blocks); then all sequences of length <= %d over block ticks, Propose by b (long period; ids 10, 11), Vote(p, a|b, 500) and Thaw(p, a|b) for every proposal still voting. Proposal 1 is tallied in the second block after the setup, while proposals whose decimal id extends '1' are open; all oracles as in pass 'obligations'", xlStop, idDepth))
	// and one trace of the obligations pass: a proposal passes, a voter locks for a second one before the trigger
	sample4 := []string{"init", "propose:a", "vote:1:b:500", "vote:1:a:pass", "propose:b:l", "tick"}
	obs4, _ := xplore.Replay(func() xplore.Instance { return newInst(&counters{m: map[string]int{}}, nil, "full") }, sample4)
	rep.Sample(map[string]interface{}{"history": sample4, "observations": obs4, "note": "'propose:x:l' has the long voting period, 'vote:p:x:pass' votes what proposal p lacks to pass"})
	col.flush(rep)

	cnt.mu.Lock()
	byKind := map[string]int{}
	committed, rejected := 0, 0
	statuses := map[string]int{}
	// amount sweep: calls by method, by amount class and by outcome
	sweepByKind, sweepByClass, sweepChanged := map[string]int{}, map[string]int{}, map[string]int{}
	sweepCalls, sweepStates := 0, 0
	sweepOutcome := map[string]int{}
	// name sweep: the same
	nameByKind, nameByClass, nameChanged, nameOutcome := map[string]int{}, map[string]int{}, map[string]int{}, map[string]int{}
	nameCalls, nameStates := 0, 0
	nameGuards := map[string]int{"states_with_alias_records": 0, "transfers_to_existing_alias_record": 0, "transfers_to_new_alias_record": 0}
	obligGuards := map[string]int{"transitions_judged": 0, "states_with_open_obligations": 0, "states_where_one_account_owes_two_open_proposals": 0,
		"repeated_thaw:rejected": 0, "repeated_thaw_while_caller_owes_another_open_proposal:rejected": 0,
		"tally_blocks_proposal_passed": 0, "tally_blocks_proposal_rejected": 0, "trigger_blocks": 0,
		"trigger_blocks_where_a_voter_owes_another_open_proposal": 0, "trigger_blocks_where_a_voter_owes_another_open_proposal_at_least_as_much": 0}
	for k, v := range cnt.m {
		if strings.HasPrefix(k, "oblig:") {
			obligGuards[strings.TrimPrefix(k, "oblig:")] = v
			continue
		}
		if strings.HasPrefix(k, "nprobe:") { // nprobe:<kind>:<class>:<outcome>
			f := strings.Split(k, ":")
			nameByKind[f[1]+":"+f[3]] += v
			nameByClass[f[2]+":"+f[3]] += v
			nameOutcome[f[3]] += v
			nameCalls += v
			continue
		}
		if strings.HasPrefix(k, "nprobe_changed_state:") {
			nameChanged[strings.TrimPrefix(k, "nprobe_changed_state:")] = v
			continue
		}
		if k == "names:states" {
			nameStates = v
			continue
		}
		if strings.HasPrefix(k, "names:") {
			nameGuards[strings.TrimPrefix(k, "names:")] = v
			continue
		}
		if strings.HasPrefix(k, "proposal_status:") {
			statuses[strings.TrimPrefix(k, "proposal_status:")] = v
			continue
		}
		if strings.HasPrefix(k, "probe:") { // probe:<kind>:<class>:<outcome>
			f := strings.Split(k, ":")
			sweepByKind[f[1]+":"+f[3]] += v
			sweepByClass[f[2]+":"+f[3]] += v
			sweepOutcome[f[3]] += v
			sweepCalls += v
			continue
		}
		if strings.HasPrefix(k, "probe_changed_state:") {
			sweepChanged[strings.TrimPrefix(k, "probe_changed_state:")] = v
			continue
		}
		if k == "sweep:states" {
			sweepStates = v
			continue
		}
		byKind[k] = v
		if strings.HasSuffix(k, ":committed") || strings.HasSuffix(k, ":mined") {
			committed += v
		}
		if strings.HasSuffix(k, ":rejected") {
			rejected += v
		}
	}
	cnt.mu.Unlock()
	rep.Set("calls_by_kind_and_outcome", byKind)
	rep.Set("proposal_statuses_seen", statuses)
	rep.Set("calls_committed", committed)
	rep.Set("calls_rejected", rejected)
	var alphabet []string
	for _, a := range sweepAmounts {
		alphabet = append(alphabet, a.Class+" "+strconv.Quote(strings.TrimPrefix(a.Tok, "=")))
	}
	rep.Set("amount_sweep.amount_alphabet", alphabet)
	rep.Set("amount_sweep.states_swept", sweepStates)
	rep.Set("amount_sweep.calls", sweepCalls)
	rep.Set("amount_sweep.calls_by_outcome", sweepOutcome)
	rep.Set("amount_sweep.calls_by_method_and_outcome", sweepByKind)
	rep.Set("amount_sweep.calls_by_amount_class_and_outcome", sweepByClass)
	rep.Set("amount_sweep.committed_calls_that_changed_the_tables_by_class", sweepChanged)
	rep.Set("amount_sweep.rule", fmt.Sprintf("in EVERY state that the two passes expand (all histories shorter than the pass bound) the event 'sweep' sends every method that takes an amount - Transfer (full pass: from,to over {a,b,c}^2; proposal pass: a>b b>a a>a a>c c>a), $proposal.Vote (each existing proposal, or the missing id 1; voter a|b|c), TDPoS nominateCandidate (a|b|c), voteCandidate (voter a|b|c, candidate a|b), revokeVote (voter a|b, candidate a|b, tip | height before), direct $govern_token.Lock / UnLock (initiator a|b, account a|b, lock type ordinary|tdpos) - with every amount string of amount_alphabet ('-all' = minus the whole balance of the account whose tokens the call moves or locks, skipped when that is 0): classes negative, over_supply, malformed in every swept state, classes zero and spelling after histories of <= %d (full) / <= %d (proposal) calls. Propose, Thaw and revokeNominate take no amount. A call refused by pre-execution (sandbox, commits nothing) counts as rejected; a call it accepts is executed as an ordinary transition (VerifyTx, DoTx, block, PlayForMiner) on a fresh instance and judged by all oracles, among them per account: balance >= every locked amount, no balance lowered except by the account's own Transfer, locking calls never lower / unlocking calls never raise a locked amount, locks only moved by lock / unlock calls of that account, conservation. No amount is assumed to be refused", spell, spellDeep))
	rep.Set("name_sweep.name_alphabet", nameAlphabetEvidence())
	rep.Set("name_sweep.names", len(aliases()))
	rep.Set("name_sweep.states_swept", nameStates)
	rep.Set("name_sweep.calls", nameCalls)
	rep.Set("name_sweep.calls_by_outcome", nameOutcome)
	rep.Set("name_sweep.calls_by_method_and_outcome", nameByKind)
	rep.Set("name_sweep.calls_by_name_class_and_outcome", nameByClass)
	rep.Set("name_sweep.committed_calls_that_changed_the_tables_by_class", nameChanged)
	rep.Set("name_sweep.vacuity_guards", nameGuards)
	rep.Set("name_sweep.rule", fmt.Sprintf("account-name dimension: in every state reached by a history of <= %d (full) / <= %d (proposal) / <= %d (names pass) calls the event 'names' sends every method that takes an account name with every name of the alphabet (%d distinct strings: each form of name_alphabet applied to the address of a, b and c, and the absolute names; duplicates dropped): Transfer (sender a|b|c in the full pass, a|b otherwise; to = the name; amount 1 and the sender's whole available balance), direct $govern_token.Lock / UnLock (initiator a|b; from = the name; lock type ordinary|tdpos; amount 1), TDPoS nominateCandidate / voteCandidate / revokeVote / revokeNominate (initiator a|b; candidate = the name; amount 1; height = tip). $proposal methods take no account name. A call refused by pre-execution counts as rejected; a call it accepts is executed as an ordinary transition on a fresh instance and judged by all oracles. The oracles do not depend on the names the harness uses: conservation sums EVERY record stored under the balance prefix of the governToken bucket (full scan), balance >= lock, lock moves and balance decreases are checked for every stored record, and the state's balance query is compared with every stored record. Nothing is assumed about which spellings denote the same account or are refused. Pass 'names' makes transfers to the alias spellings %v ordinary events, so that later calls (and the sweeps) meet records that exist under alias names. Violation keys of calls with an alias name carry '.alias_name' (conservation broken upwards by such a transfer: c19.transfer_to_alias_name_mints)", nameFull, nameDeep, nameNames, len(aliases()), namesPassTargets))
	rep.Set("obligations.vacuity_guards", obligGuards)
	rep.Set("obligations.rule", fmt.Sprintf("obligations dimension: the harness keeps its own ledger of what every account has locked for which proposal, from the committed calls alone (Propose: deposit %d of the proposer; Vote(p, n): n of the voter; Thaw(p) by the proposer: its deposit is released once; the contract's lock records are not read). After EVERY transition of EVERY pass (and every committed sweep call) the oracle demands for every account: locked[ordinary] >= sum of its ledger entries for the proposals whose stored status is still 'voting' (c19.lock_below_open_obligations.<call kind | timer_task>, flagged where the shortfall opens or widens). The ledger is part of the state key. Pass 'obligations' enumerates all sequences of length <= %d over Init, Propose by a|b with the short (stop tip+%d, trigger tip+%d) or the long (tip+%d / tip+%d) voting period while fewer than %d proposals exist, Vote(p, a|b, 500 | 'pass' = what p lacks to reach %d%% of the supply = %d), Thaw(p, a|b) - offered again after it succeeded and for every status - and block ticks; the timer tasks of both heights (CheckVoteResult, Trigger) run in the blocks of those heights, after the block's call. vacuity_guards count, over the ordinary transitions of all passes: states in which one account owes two open proposals, repeated Thaw calls (by outcome; '_while_caller_owes_another_open_proposal': the class in which a second release would hit another proposal's tokens), blocks whose tally made a proposal pass / rejected it, blocks that ran the Trigger of a passed proposal, and those among them in which a voter of the triggered proposal owes another open proposal (at least as much as its record: a second release of the record would succeed)", proposalDeposit, obDepth, shortStop, shortTrigger, longStop, longTrigger, obProps, minVotePercent, passThreshold))
	rep.Set("bound", fmt.Sprintf("pass 'obligations': see obligations.rule (length <= %d, <= %d proposals, no sweeps); pass 'full': all call sequences of length <= %d over Init, Transfer(from,to in {a,b,c fresh} incl. to=from; 0,1,500,1000,all,all+1 and, with locks, available / available+1), Propose(a|b), Vote(p,a|b;0,500,all), Thaw(p,a|b), block ticks (timer tasks: CheckVoteResult / Trigger), TDPoS nominate / vote / revokeVote / revokeNominate (1,500,all; revokes naming the tip or the height before it), direct Lock / UnLock, and as last call of every sequence each call of the amount sweep (amount_sweep.rule); pass 'proposal': length <= %d over Init, Transfer a<->b (500, all | available, available+1), Propose, Vote (500, all), Thaw, ticks, amount sweep last; genesis quotas a=%d b=%d; pass 'names': length <= %d over Init, Transfer from a|b to a, b and the alias spellings %v (500, available), Propose(a), nominate(b,500), ticks, both sweeps last; every pass: the name sweep (name_sweep.rule) as last call of the short sequences; merged on the committed content of the governToken, proposal, timer and $tdpos buckets (+ height while timer tasks are pending, + the obligations ledger)", obDepth, obProps, depth, deep, quotaA, quotaB, nmDepth, namesPassTargets))
	rep.Set("exhaustive", st.Completed && st2.Completed && st3.Completed && st4.Completed && st5.Completed && st6.Completed)
	rep.Set("xpos.rule", fmt.Sprintf("pass 'xpos': the alphabet of pass 'full' (length <= %d; amount and name sweeps after histories of <= 1 call) on a world whose TDPoS object is constructed with bft_config (XPoS): nominateCandidate / voteCandidate / revokeVote / revokeNominate are the methods registered under $xpos, their records live in the $xpos bucket and $govern_token.Lock / UnLock see the caller $xpos; all oracles unchanged", xpDepth))
	rep.Assume("TDPoS kernel methods are the real ones: bcs/consensus/tdpos.NewTdposConsensus (non-BFT) constructed on the world's contract manager and agent.NewLedgerAgent with a stub network (only PeerInfo is used); the chain's own consensus stays 'single' (block production is done by the harness as Miner.packBlock does)")
	rep.Assume("genesis has nofee=true (gas prices 0, transactions without UTXO inputs are admissible, as Chain.SubmitTx allows on such chains) so that fees do not bound the call sequences")
	rep.Assume("every committed call is a transaction that passed State.VerifyTx + DoTx and was packed alone into the next block together with the timer transaction of that height; contract.Manager pre-execution as Chain.PreExec")
	rep.Assume("vkv in-memory engine behaves as goleveldb for the operations used (conformance test in setup)")
	return rep
}

func replay(c json.RawMessage) (bool, string, error) {
	var cs struct {
		History   []string `json:"history"`
		Consensus string   `json:"consensus"`
		Setup     string   `json:"setup"`
	}
	if err := json.Unmarshal(c, &cs); err != nil {
		return false, "", err
	}
	setXpos(cs.Consensus == "xpos")
	defer setXpos(false)
	idsSetup = cs.Setup == "ids"
	defer func() { idsSetup = false }()
	world.Init()
	vhook.Capture()
	cnt := &counters{m: map[string]int{}}
	obs, viol := xplore.Replay(func() xplore.Instance { return newInst(cnt, nil, "full") }, cs.History)
	var sb bytes.Buffer
	for k, e := range cs.History {
		fmt.Fprintf(&sb, "%s => %s; ", e, obs[k])
	}
	if len(viol) > 0 {
		keys := make([]string, 0, len(viol))
		for _, v := range viol {
			keys = append(keys, v.Key)
		}
		return true, strings.Join(keys, " + ") + ": " + viol[0].Summary + " [" + sb.String() + "]", nil
	}
	return false, "history replayed without violation [" + sb.String() + "]", nil
}

func init() {
	core.Register(&core.Check{ID: "C19", Run: run, Replay: replay})
}
