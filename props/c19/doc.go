// Package c19 holds the check for property C19.
package c19
