package c19

// Account-name alphabet.
//
// Every call of the ordinary alphabet names accounts by the canonical address
// of a key the harness owns. An account name is, however, a free-form string
// argument (Transfer 'to', Lock / UnLock 'from', the TDPoS 'candidate'), and two
// sites of the implementation that disagree about which strings denote the
// same account break conservation without any unusual amount. This file adds
// that dimension:
//
//   - nameForms: spellings derived from the address X of each of a, b, c
//     (white space around it, invisible / control characters, other case,
//     prefixes / suffixes / extensions, the key separator and key prefixes of
//     the buckets, qualified "account/address" form, unicode look-alikes,
//     quoting, invalid UTF-8) and absNames: names that are no spelling of an
//     account at all (empty, blank, separator only, the other keys of the
//     bucket, reserved names);
//   - the event "names" (name sweep), offered in every state reached by a
//     history of at most nameDepth calls: every method that takes an account
//     name x every call site x every name of the alphabet, with ordinary valid
//     amounts. As in the amount sweep a call refused by pre-execution is a
//     rejected call, a call it accepts is executed as an ordinary transition
//     on a fresh instance (same history + that call) and judged by all oracles;
//   - the pass "names": sequences in which records under alias names already
//     exist (transfers to a few alias spellings are ordinary events there).
//
// A name token in an event is <base>~<form> (form applied to the address of
// base a|b|c) or ~<abs>. Tokens contain neither ':' nor '>'.
//
// Nothing is assumed about which names ought to be refused or which spellings
// ought to denote the same account: the oracles work on the records actually
// stored (the whole governToken bucket is scanned, not the accounts of the
// alphabet), so a spelling may be a fresh account, the same account, or be
// refused - what is committed has to keep conservation, the lock rules and
// balance >= lock for every record there is.

import (
	"fmt"
	"strconv"
	"strings"
	"sync"

	"github.com/xuperchain/xupercore/protos"
)

const (
	ncWhitespace = "whitespace"
	ncInvisible  = "invisible"
	ncCase       = "case"
	ncAffix      = "affix"
	ncSeparator  = "separator"
	ncQualified  = "qualified"
	ncLookalike  = "lookalike"
	ncEncoding   = "encoding"
	ncAbsolute   = "absolute"
)

type nameForm struct {
	ID, Class string
	Make      func(x string) string
}

var cyrillic = map[rune]rune{'A': 'А', 'B': 'В', 'C': 'С', 'E': 'Е', 'H': 'Н', 'K': 'К', 'M': 'М', 'O': 'О', 'P': 'Р', 'T': 'Т', 'X': 'Х',
	'a': 'а', 'c': 'с', 'e': 'е', 'o': 'о', 'p': 'р', 'x': 'х', 'y': 'у'}

func fullwidth(r rune) rune {
	if r > 0x20 && r < 0x7f {
		return r - 0x20 + 0xff00
	}
	return r
}

func swapCase(r rune) rune {
	switch {
	case r >= 'a' && r <= 'z':
		return r - 'a' + 'A'
	case r >= 'A' && r <= 'Z':
		return r - 'A' + 'a'
	}
	return r
}

var nameForms = []nameForm{
	// white space that strings.TrimSpace / TrimRight / Fields would drop
	{"sp_t", ncWhitespace, func(x string) string { return x + " " }},
	{"sp_l", ncWhitespace, func(x string) string { return " " + x }},
	{"sp_b", ncWhitespace, func(x string) string { return " " + x + " " }},
	{"tab_l", ncWhitespace, func(x string) string { return "\t" + x }},
	{"tab_t", ncWhitespace, func(x string) string { return x + "\t" }},
	{"nl_t", ncWhitespace, func(x string) string { return x + "\n" }},
	{"crlf_t", ncWhitespace, func(x string) string { return x + "\r\n" }},
	{"nbsp_t", ncWhitespace, func(x string) string { return x + "\u00a0" }},
	{"nel_t", ncWhitespace, func(x string) string { return x + "\u0085" }},
	{"ideo_l", ncWhitespace, func(x string) string { return "\u3000" + x }},
	// characters that do not show and that C strings / text tools cut at
	{"nul_t", ncInvisible, func(x string) string { return x + "\x00" }},
	{"zwsp_t", ncInvisible, func(x string) string { return x + "\u200b" }},
	{"bom_l", ncInvisible, func(x string) string { return "\ufeff" + x }},
	// other case
	{"lower", ncCase, strings.ToLower},
	{"upper", ncCase, strings.ToUpper},
	{"swap1", ncCase, func(x string) string {
		for k, r := range x {
			if s := swapCase(r); s != r {
				return x[:k] + string(s) + x[k+1:]
			}
		}
		return x + "A"
	}},
	// a name that is a prefix / suffix / extension of another
	{"pre_1", ncAffix, func(x string) string { return x[:len(x)-1] }},
	{"first", ncAffix, func(x string) string { return x[:1] }},
	{"suf_1", ncAffix, func(x string) string { return x[1:] }},
	{"last", ncAffix, func(x string) string { return x[len(x)-1:] }},
	{"ext_x", ncAffix, func(x string) string { return x + "x" }},
	{"twice", ncAffix, func(x string) string { return x + x }},
	// the separator and key prefixes the buckets use
	{"us_l", ncSeparator, func(x string) string { return "_" + x }},
	{"us_t", ncSeparator, func(x string) string { return x + "_" }},
	{"bal_pfx", ncSeparator, func(x string) string { return "balanceOf_" + x }},
	{"lock_pfx", ncSeparator, func(x string) string { return "lock_1_" + x }},
	{"us_type", ncSeparator, func(x string) string { return x + "_" + typeOrdinary }},
	// contract-account qualified form "account/address" (what auth_require carries)
	{"acct_q", ncQualified, func(x string) string { return "XC1111111111111111@" + "xuper/" + x }},
	// unicode look-alikes
	{"fullw", ncLookalike, func(x string) string { return strings.Map(fullwidth, x) }},
	{"cyr1", ncLookalike, func(x string) string {
		for k, r := range x {
			if c, ok := cyrillic[r]; ok {
				return x[:k] + string(c) + x[k+1:]
			}
		}
		return string(fullwidth(rune(x[0]))) + x[1:]
	}},
	// quoting and bytes that are no UTF-8 (a JSON map key turns them into U+FFFD)
	{"quoted", ncEncoding, func(x string) string { return `"` + x + `"` }},
	{"bad_utf8", ncEncoding, func(x string) string { return x + "\xfe" }},
}

var absNames = []struct{ ID, Val string }{
	{"empty", ""}, {"blank", " "}, {"us", "_"}, {"bal", "balanceOf_"}, {"supply", "totalSupply"},
	{"dist", "distributed"}, {"dollar", "$"}, {"gov", "$govern_token"},
}

var formByID = func() map[string]nameForm {
	m := map[string]nameForm{}
	for _, f := range nameForms {
		m[f.ID] = f
	}
	return m
}()

func isAliasTok(tok string) bool { return strings.IndexByte(tok, '~') >= 0 }

// nameStr resolves a name token to the string that is sent.
func nameStr(tok string) string {
	j := strings.IndexByte(tok, '~')
	switch {
	case j < 0:
		return addrOf(tok)
	case j == 0:
		for _, a := range absNames {
			if a.ID == tok[1:] {
				return a.Val
			}
		}
	default:
		if f, ok := formByID[tok[j+1:]]; ok {
			return f.Make(addrOf(tok[:j]))
		}
	}
	panic("c19: bad name token " + tok)
}

func nameClass(tok string) string {
	j := strings.IndexByte(tok, '~')
	switch {
	case j < 0:
		return "canonical"
	case j == 0:
		return ncAbsolute
	}
	return formByID[tok[j+1:]].Class
}

type aliasName struct{ Tok, Class, Val string }

var (
	aliasOnce sync.Once
	aliasList []aliasName
	aliasByID map[string]string // sent string -> token
)

// aliases lists the name alphabet of the sweep: every form of every base
// account and the absolute names, without the strings that occur twice (the
// first token is kept) and without the canonical addresses themselves.
func aliases() []aliasName {
	aliasOnce.Do(func() {
		aliasByID = map[string]string{}
		for _, a := range accounts {
			aliasByID[addrOf(a)] = a
		}
		add := func(tok string) {
			v := nameStr(tok)
			if _, dup := aliasByID[v]; dup {
				return
			}
			aliasByID[v] = tok
			aliasList = append(aliasList, aliasName{Tok: tok, Class: nameClass(tok), Val: v})
		}
		for _, f := range nameForms {
			for _, a := range accounts {
				add(a + "~" + f.ID)
			}
		}
		for _, a := range absNames {
			add("~" + a.ID)
		}
	})
	return aliasList
}

// showName renders a stored account name for messages: the symbolic account,
// the alias token with its spelling, or the quoted string.
func showName(name string) string {
	aliases()
	if tok, ok := aliasByID[name]; ok {
		if isAliasTok(tok) {
			return tok + " " + strconv.QuoteToASCII(name)
		}
		return tok
	}
	return "? " + strconv.QuoteToASCII(name)
}

// namesPassTargets: the alias spellings that are ordinary transfer targets in
// the pass "names" (so that later calls meet records stored under them).
var namesPassTargets = []string{"a~sp_t", "b~sp_t", "a~lower", "a~ext_x"}

func (i *inst) enabledNames() []string {
	evs := []string{"tick"}
	for _, from := range []string{"a", "b"} {
		for _, to := range append([]string{"a", "b"}, namesPassTargets...) {
			for _, a := range []string{"500", "av"} {
				evs = append(evs, fmt.Sprintf("xfer:%s>%s:%s", from, to, a))
			}
		}
	}
	return append(evs, "propose:a", "nominate:b:500")
}

// nameProbes lists the calls of the name sweep in the current state.
func (i *inst) nameProbes() []probe {
	senders := accounts
	if i.alpha != "full" {
		senders = []string{"a", "b"}
	}
	var out []probe
	for _, n := range aliases() {
		for _, from := range senders {
			for _, amt := range []string{"1", "av"} {
				out = append(out, probe{Ev: fmt.Sprintf("xfer:%s>%s:%s", from, n.Tok, amt), Class: n.Class})
			}
		}
		for _, who := range []string{"a", "b"} {
			for _, kind := range []string{"lock!", "unlock!"} {
				for _, lt := range lockTypes {
					out = append(out, probe{Ev: fmt.Sprintf("%s:%s>%s:%s:1", kind, who, n.Tok, lt), Class: n.Class})
				}
			}
			out = append(out,
				probe{Ev: fmt.Sprintf("nominate:%s>%s:1", who, n.Tok), Class: n.Class},
				probe{Ev: fmt.Sprintf("tvote:%s:%s:1", who, n.Tok), Class: n.Class},
				probe{Ev: fmt.Sprintf("trevoke:%s:%s:1:tip", who, n.Tok), Class: n.Class},
				probe{Ev: fmt.Sprintf("unnominate:%s>%s:tip", who, n.Tok), Class: n.Class})
		}
	}
	return out
}

// nameSweep sends every call of nameProbes: pre-execution on this instance, an
// accepted call as an ordinary transition on a fresh one (runProbe).
func (i *inst) nameSweep() string {
	i.pre = i.cur
	i.sweepViol = nil
	before := i.Key()
	n, accepted := 0, 0
	sent := map[string]bool{}
	for _, p := range i.nameProbes() {
		st, req := i.request(p.Ev)
		// 'av' that resolves to 1 is the call already sent with the amount 1
		id := st.Kind + "|" + st.From + "|" + st.To + "|" + st.Target + "|" + st.LT + "|" + st.Raw
		if sent[id] {
			continue
		}
		sent[id] = true
		n++
		ini := addrOf(st.From)
		res, err := i.w.PreExec([]*protos.InvokeRequest{req}, ini, []string{ini})
		if err != nil || len(res.Responses) != 1 || res.Responses[0].Status >= 400 {
			i.cnt.add("nprobe:" + st.Kind + ":" + p.Class + ":rejected")
			continue
		}
		accepted++
		i.runProbe(p, before, "nprobe")
	}
	i.cur = readTables(i.w)
	s := &step{Ev: "names", Kind: "names"}
	s.Obs = fmt.Sprintf("names: %d calls, %d accepted by pre-execution", n, accepted)
	i.last = s
	return s.Obs
}

// namesUsed maps the alias tokens of a history to the strings they stand for
// (Go-quoted, ASCII only), for the replay file's reader.
func namesUsed(hist []string) map[string]string {
	out := map[string]string{}
	for _, e := range hist {
		for _, f := range strings.FieldsFunc(e, func(r rune) bool { return r == ':' || r == '>' }) {
			if isAliasTok(f) {
				out[f] = strconv.QuoteToASCII(nameStr(f))
			}
		}
	}
	return out
}

// nameAlphabetEvidence renders the alphabet for the evidence file.
func nameAlphabetEvidence() []string {
	var out []string
	for _, f := range nameForms {
		out = append(out, fmt.Sprintf("%s <base>~%s: AbcXyz -> %s", f.Class, f.ID, strconv.QuoteToASCII(f.Make("AbcXyz"))))
	}
	for _, a := range absNames {
		out = append(out, fmt.Sprintf("%s ~%s = %s", ncAbsolute, a.ID, strconv.QuoteToASCII(a.Val)))
	}
	return out
}
