// Package c20: p2p codec (exhaustive corruption enumeration, codec.go) and
// dispatcher (operation-sequence and schedule enumeration over a base population
// and its message-header variants, dispatch.go; exhaustive subscriber-filter x
// message-header matrix through Match and Dispatch, filters.go).
package c20

import (
	"encoding/json"
	"fmt"
	"os"
	"time"

	"github.com/xuperchain/xupercore/verifshim/vhook"

	"verif/core"
	"verif/engine/vsched"
	"verif/world"
)

// set by codec_link.go when the codec half is present
var (
	runCodec    func(rep *core.Report, tier core.Tier)
	replayCodec func(c json.RawMessage) (bool, string, error)
)

func run(tier core.Tier) *core.Report {
	rep := core.NewReport("C20", tier, "model_checking")
	world.Init()
	// Dispatch's handler goroutines are rewritten to vhook.Go: they must really
	// run (sequential part) or become controlled threads (concurrent part), never be queued
	vhook.Release()
	if runCodec != nil {
		runCodec(rep, tier)
	} else {
		rep.Assume("codec half not linked into this build")
	}
	// base population: all operation sequences of length n, all schedules of the
	// concurrent patterns within the preemption bound; header variants of message
	// m0 (From x Bcname over {equal, empty, other, prefix, extension} relative to
	// the subscribers' filters): the same enumerations with their own bounds
	n, bound := 4, 2
	vn, vbound := 3, 1
	tn, tbound := 3, 1
	if tier == core.Thorough {
		n, bound = 5, 4
		vn, vbound = 4, 2
		tn, tbound = 4, 2
	}
	t0 := time.Now()
	runFilters(rep, tier)
	tFilter := time.Since(t0)
	t0 = time.Now()
	seqs, dels := runSequential(rep, n, 0, 1, "")
	vseqs, vdels := runSequential(rep, vn, 1, numVariants(), "_header_variants")
	tseqs, tdels := runSequential(rep, tn, numVariants(), numPopulations(), "_twin_populations")
	tSeq := time.Since(t0)
	t0 = time.Now()
	scheds, complete := runConcurrent(rep, bound, 0, 1)
	vscheds, vcomplete := runConcurrent(rep, vbound, 1, numVariants())
	tscheds, tcomplete := runConcurrent(rep, tbound, numVariants(), numPopulations())
	tConc := time.Since(t0)
	rep.Set("dispatch.sequences", seqs)
	rep.Set("dispatch.sequence_length", n)
	rep.Set("dispatch.deliveries_observed", dels)
	rep.Set("dispatch.schedules", scheds)
	rep.Set("dispatch.preemption_bound", bound)
	rep.Set("dispatch.header_variants", map[string]interface{}{
		"variants": numVariants() - 1, "m0_from": varFrom, "m0_bcname": varBc,
		"rule":            "message m0 of the base population with every other (From, Bcname) of the two alphabets (equal, empty, other value, proper prefix, extension - relative to the sender filter of s1 and the chain filter of s0); per variant all operation sequences of the given length and all schedules of the 6 concurrent patterns within the given preemption bound, judged by the same history oracle with the reference predicate (filter empty -> any, else equality)",
		"sequence_length": vn, "sequences": vseqs, "deliveries_observed": vdels, "preemption_bound": vbound, "schedules": vscheds})
	var twinNames []string
	for t := 0; t < numTwins(); t++ {
		twinNames = append(twinNames, variantName(numVariants()+t))
	}
	var twinPatternNames []string
	for _, p := range concPatterns[basePatterns:] {
		twinPatternNames = append(twinPatternNames, p.Name)
	}
	rep.Set("dispatch.twin_populations", map[string]interface{}{
		"populations": numTwins(), "twins": twinNames, "m0": variantSpec(0).ident(0).String(),
		"rule":            "message identity dimension: the base population plus a fourth message m3 that is a twin of m0 - equal to m0 in every component but one (payload; type; chain name; sender; log id), an equal copy in a separate object, or m0 with the boundary between two adjacent header fields moved by one character (header tuples differ, their plain concatenation does not). Per population all operation sequences of the given length over the 10 operations (3 register, 3 unregister, 4 dispatch) and all schedules of the twin patterns within the given preemption bound, all inside the de-duplication window, judged by the same history oracle whose notion of 'repeat' is the reference identity: same message iff header tuple (type, chain, sender, log id) AND payload are equal; every distinct message is owed exactly one delivery to every registered matching subscriber, a repeat none. A sequence is non-trivial when it delivers something (distinct outcomes counted)",
		"patterns":        twinPatternNames,
		"sequence_length": tn, "sequences": tseqs, "deliveries_observed": tdels, "preemption_bound": tbound, "schedules": tscheds})
	rep.Set("dispatch.part_wall_ms", map[string]int{"filter_matrix": int(tFilter / time.Millisecond), "sequences": int(tSeq / time.Millisecond), "schedules": int(tConc / time.Millisecond)})
	rep.Add("states", seqs+scheds+vseqs+vscheds+tseqs+tscheds)
	rep.Add("transitions", seqs*n+scheds+vseqs*vn+vscheds+tseqs*tn+tscheds)
	rep.Add("traces_validated_against_impl", seqs+scheds+vseqs+vscheds+tseqs+tscheds)
	if !complete || !vcomplete || !tcomplete {
		rep.Set("exhaustive", false)
	}
	core.RacePass(rep, "C20", "c20.dispatch")
	rep.Assume("the 3 s de-duplication window does not elapse inside one enumerated sequence (measured: a repeat is judged only if it follows within 1.5 s)")
	rep.Assume("two concurrent dispatches of the very same message are not judged (neither is 'handled' when the other starts)")
	return rep
}

func replay(c json.RawMessage) (bool, string, error) {
	var cs struct {
		Part     string `json:"part"`
		Ops      []int  `json:"ops"`
		Pattern  int    `json:"pattern"`
		Variant  int    `json:"variant"`
		Schedule []int  `json:"schedule"`
	}
	if err := json.Unmarshal(c, &cs); err != nil {
		return false, "", err
	}
	world.Init()
	vhook.Release()
	switch cs.Part {
	case "dispatch-seq":
		if cs.Variant < 0 || cs.Variant >= numPopulations() {
			return false, "", fmt.Errorf("unknown header variant %d", cs.Variant)
		}
		f := newFixtureVariant(cs.Variant)
		for _, o := range cs.Ops {
			if o < 0 || o >= numOps(cs.Variant) {
				return false, "", fmt.Errorf("unknown operation %d", o)
			}
			f.op(opNames[o].kind, opNames[o].arg)
		}
		if v := f.judge(); len(v) > 0 {
			return true, fmt.Sprintf("%s\ndeliveries=%+v\nops=%+v", v[0], f.deliveries, f.ops), nil
		}
		return false, "sequence replayed without violation", nil
	case "dispatch-conc":
		if p0, p1 := patternRange(cs.Variant); cs.Variant < 0 || cs.Variant >= numPopulations() || cs.Pattern < p0 || cs.Pattern >= p1 {
			return false, "", fmt.Errorf("unknown population %d / pattern %d", cs.Variant, cs.Pattern)
		}
		in := newConcVariant(cs.Pattern, cs.Variant)()
		// a schedule recorded on a tree with a different synchronisation structure
		// may name a choice that does not exist here; the scheduler then stops inside
		// its own lock and never returns: such a replay reproduces nothing
		ch := make(chan vsched.Outcome, 1)
		go func() { ch <- vsched.Run(in.Bodies, cs.Schedule, 2000, true) }()
		var o vsched.Outcome
		select {
		case o = <-ch:
		case <-time.After(20 * time.Second):
			return false, "the recorded schedule does not fit the synchronisation structure of this tree (replay diverged): nothing reproduced", nil
		}
		if o.Diverged != "" {
			return false, "the recorded schedule does not fit the synchronisation structure of this tree (" + o.Diverged + "): nothing reproduced", nil
		}
		if v := in.Check(o); len(v) > 0 {
			return true, fmt.Sprintf("%v\ntrace: %v", v, o.Trace), nil
		}
		return false, "schedule replayed without violation", nil
	case "dispatch-filter":
		return replayFilter(c)
	case "race":
		return false, "race reports are reproduced by the race pass itself (./run.sh C20 quick)", nil
	}
	if replayCodec != nil {
		return replayCodec(c)
	}
	return false, "", fmt.Errorf("unknown case part %q", cs.Part)
}

func init() {
	core.Register(&core.Check{ID: "C20", Run: run, Replay: replay})
	core.RegisterRace("C20", func() { RacePassBodies(200) })
	if os.Getenv("VERIF_DEV") != "" {
		// development alias: dispatcher half only
		core.Register(&core.Check{ID: "C20D", Run: func(t core.Tier) *core.Report {
			saved := runCodec
			runCodec = nil
			defer func() { runCodec = saved }()
			return run(t)
		}, Replay: replay})
	}
}
