// Package c20: p2p codec (exhaustive corruption enumeration, codec.go) and
// dispatcher (operation-sequence and schedule enumeration, dispatch.go).
package c20

import (
	"encoding/json"
	"fmt"
	"os"

	"github.com/xuperchain/xupercore/verifshim/vhook"

	"verif/core"
	"verif/engine/vsched"
	"verif/world"
)

// set by codec_link.go when the codec half is present
var (
	runCodec    func(rep *core.Report, tier core.Tier)
	replayCodec func(c json.RawMessage) (bool, string, error)
)

func run(tier core.Tier) *core.Report {
	rep := core.NewReport("C20", tier, "model_checking")
	world.Init()
	// Dispatch's handler goroutines are rewritten to vhook.Go: they must really
	// run (sequential part) or become controlled threads (concurrent part), never be queued
	vhook.Release()
	if runCodec != nil {
		runCodec(rep, tier)
	} else {
		rep.Assume("codec half not linked into this build")
	}
	n, bound := 4, 2
	if tier == core.Thorough {
		n, bound = 5, 4
	}
	seqs, dels := runSequential(rep, n)
	scheds, complete := runConcurrent(rep, bound)
	rep.Set("dispatch.sequences", seqs)
	rep.Set("dispatch.sequence_length", n)
	rep.Set("dispatch.deliveries_observed", dels)
	rep.Set("dispatch.schedules", scheds)
	rep.Set("dispatch.preemption_bound", bound)
	rep.Add("states", seqs+scheds)
	rep.Add("transitions", seqs*n+scheds)
	rep.Add("traces_validated_against_impl", seqs+scheds)
	if !complete {
		rep.Set("exhaustive", false)
	}
	core.RacePass(rep, "C20", "c20.dispatch")
	rep.Assume("the 3 s de-duplication window does not elapse inside one enumerated sequence (measured: a repeat is judged only if it follows within 1.5 s)")
	rep.Assume("two concurrent dispatches of the very same message are not judged (neither is 'handled' when the other starts)")
	return rep
}

func replay(c json.RawMessage) (bool, string, error) {
	var cs struct {
		Part     string `json:"part"`
		Ops      []int  `json:"ops"`
		Pattern  int    `json:"pattern"`
		Schedule []int  `json:"schedule"`
	}
	if err := json.Unmarshal(c, &cs); err != nil {
		return false, "", err
	}
	world.Init()
	vhook.Release()
	switch cs.Part {
	case "dispatch-seq":
		f := newFixture()
		for _, o := range cs.Ops {
			f.op(opNames[o].kind, opNames[o].arg)
		}
		if v := f.judge(); len(v) > 0 {
			return true, fmt.Sprintf("%s\ndeliveries=%+v\nops=%+v", v[0], f.deliveries, f.ops), nil
		}
		return false, "sequence replayed without violation", nil
	case "dispatch-conc":
		in := newConc(cs.Pattern)()
		o := vsched.Run(in.Bodies, cs.Schedule, 2000, true)
		if v := in.Check(o); len(v) > 0 {
			return true, fmt.Sprintf("%v\ntrace: %v", v, o.Trace), nil
		}
		return false, "schedule replayed without violation", nil
	case "race":
		return false, "race reports are reproduced by the race pass itself (./run.sh C20 quick)", nil
	}
	if replayCodec != nil {
		return replayCodec(c)
	}
	return false, "", fmt.Errorf("unknown case part %q", cs.Part)
}

func init() {
	core.Register(&core.Check{ID: "C20", Run: run, Replay: replay})
	core.RegisterRace("C20", func() { RacePassBodies(200) })
	if os.Getenv("VERIF_DEV") != "" {
		// development alias: dispatcher half only
		core.Register(&core.Check{ID: "C20D", Run: func(t core.Tier) *core.Report {
			saved := runCodec
			runCodec = nil
			defer func() { runCodec = saved }()
			return run(t)
		}, Replay: replay})
	}
}
