package c20

// Codec half of C20: exhaustive bounded enumeration of the p2p message codec.
//
// What the code under test does (kernel/network/p2p/message.go): NewMessage
// marshals the payload, applies the options, snappy-compresses every non-empty
// payload (no size threshold), and stores CRC-32/IEEE of Data.MsgInfo -- the
// bytes AFTER compression, i.e. exactly the bytes that travel -- in
// Header.DataCheckSum. Unmarshal = VerifyChecksum, Decompress, proto.Unmarshal.
//
// Enumerated here: payload kinds x every MessageType x every subset of the four
// exported options (with every value of the enumerated option domains on the
// small payloads); each built message goes through the wire round trip of the
// envelope (proto.Marshal / proto.Unmarshal of XuperMessage, what both
// transports do) and is then decoded with the real p2p.Unmarshal /
// p2p.VerifyChecksum. On the received Data.MsgInfo every single-bit flip and
// every burst pattern (first and last bit of the window set) up to the tier's
// length bound is applied at every bit offset; the real VerifyChecksum and the
// real Unmarshal are called on every single corrupted message.

import (
	"bytes"
	"crypto/sha256"
	"encoding/binary"
	"encoding/json"
	"fmt"
	"math/bits"
	"runtime"
	"sort"
	"strings"
	"sync"
	"sync/atomic"

	"github.com/golang/protobuf/proto"

	"verif/core"

	"github.com/xuperchain/xupercore/kernel/engines/xuperos/xpb"
	"github.com/xuperchain/xupercore/kernel/network/p2p"
	pb "github.com/xuperchain/xupercore/protos"
)

// ---------------------------------------------------------------------------
// finite domains

// bit orders in which "a window of b consecutive bits" is read.
const (
	orderLSB = 0 // bit i of the stream = bit (i%8) of byte i/8 counted from the least significant bit: the order in which CRC-32/IEEE consumes bits (Ethernet wire order)
	orderMSB = 1 // bit i of the stream = bit (i%8) of byte i/8 counted from the most significant bit (how a hex dump is read)
)

var orderName = [2]string{"lsb", "msb"}

type payloadKind struct {
	Name  string
	Make  func() proto.Message // nil: the nil payload
	New   func() proto.Message // fresh receiver object
	Large bool
}

// prng: fixed incompressible bytes (SHA-256 in counter mode; a constant, not a sample).
func prng(n int) []byte {
	out := make([]byte, 0, n+32)
	var ctr [8]byte
	for i := uint64(0); len(out) < n; i++ {
		binary.BigEndian.PutUint64(ctr[:], i)
		h := sha256.Sum256(append([]byte("c20-codec-incompressible"), ctr[:]...))
		out = append(out, h[:]...)
	}
	return out[:n]
}

func newTip() proto.Message { return &xpb.TipStatus{} }
func newBID() proto.Message { return &xpb.BlockID{} }

var payloadKinds = []*payloadKind{
	{Name: "nil", Make: nil, New: newTip},
	// the answer "this is not my trunk tip" of handleConfirmChainStatus: encodes to zero bytes
	{Name: "empty_0B(TipStatus{IsTrunkTip:false})", Make: func() proto.Message { return &xpb.TipStatus{IsTrunkTip: false} }, New: newTip},
	// smallest non-empty protobuf encoding (a set field needs tag + value: 2 bytes; 1 byte is not a valid encoding)
	{Name: "tiny_2B(TipStatus{IsTrunkTip:true})", Make: func() proto.Message { return &xpb.TipStatus{IsTrunkTip: true} }, New: newTip},
	{Name: "incompressible_64B(BlockID)", Make: func() proto.Message { return &xpb.BlockID{Blockid: prng(62)} }, New: newBID},
	{Name: "compressible_64B(BlockID)", Make: func() proto.Message { return &xpb.BlockID{Blockid: make([]byte, 62)} }, New: newBID},
	{Name: "blockid_40B(BlockID)", Make: func() proto.Message { return &xpb.BlockID{Bcname: "xuper", Blockid: prng(31)} }, New: newBID},
	{Name: "incompressible_1MiB(BlockID)", Make: func() proto.Message { return &xpb.BlockID{Blockid: prng(1 << 20)} }, New: newBID, Large: true},
	{Name: "compressible_1MiB(BlockID)", Make: func() proto.Message {
		return &xpb.BlockID{Blockid: bytes.Repeat([]byte("xuperchain-block"), 1<<16)}
	}, New: newBID, Large: true},
}

func kindByName(n string) *payloadKind {
	for _, k := range payloadKinds {
		if k.Name == n {
			return k
		}
	}
	return nil
}

func (k *payloadKind) payload() proto.Message {
	if k.Make == nil {
		return nil // untyped nil: NewMessage's "message != nil" must see no payload
	}
	return k.Make()
}

// optSpec: which of the four exported options are passed, with which value.
type optSpec struct {
	BCName    *string `json:"bcname,omitempty"`
	LogID     *string `json:"logid,omitempty"`
	Version   *string `json:"version,omitempty"`
	ErrorType *int32  `json:"error_type,omitempty"`
}

func (o optSpec) opts() []p2p.MessageOption {
	var out []p2p.MessageOption
	if o.BCName != nil {
		out = append(out, p2p.WithBCName(*o.BCName))
	}
	if o.LogID != nil {
		out = append(out, p2p.WithLogId(*o.LogID))
	}
	if o.Version != nil {
		out = append(out, p2p.WithVersion(*o.Version))
	}
	if o.ErrorType != nil {
		out = append(out, p2p.WithErrorType(pb.XuperMessage_ErrorType(*o.ErrorType)))
	}
	return out
}

func (o optSpec) String() string {
	var p []string
	if o.BCName != nil {
		p = append(p, "bcname="+*o.BCName)
	}
	if o.LogID != nil {
		p = append(p, "logid="+*o.LogID)
	}
	if o.Version != nil {
		p = append(p, "version="+*o.Version)
	}
	if o.ErrorType != nil {
		p = append(p, "errorType="+pb.XuperMessage_ErrorType(*o.ErrorType).String())
	}
	if len(p) == 0 {
		return "no options"
	}
	return strings.Join(p, ",")
}

func sortedEnum(m map[int32]string) []int32 {
	out := make([]int32, 0, len(m))
	for v := range m {
		out = append(out, v)
	}
	sort.Slice(out, func(i, j int) bool { return out[i] < out[j] })
	return out
}

func allTypes() []pb.XuperMessage_MessageType {
	var out []pb.XuperMessage_MessageType
	for _, v := range sortedEnum(pb.XuperMessage_MessageType_name) {
		out = append(out, pb.XuperMessage_MessageType(v))
	}
	return out
}

// optCombos: every subset of {WithBCName, WithLogId, WithVersion, WithErrorType}.
// full: additionally every value of the enumerated option domains (3 versions,
// every ErrorType); otherwise one fixed non-default value per option (16 subsets).
func optCombos(full bool) []optSpec {
	bc, lg := "c20chain", "c20-logid-0001"
	versions := []string{p2p.MessageVersion2}
	errs := []int32{int32(pb.XuperMessage_CHECK_SUM_ERROR)}
	if full {
		versions = []string{p2p.MessageVersion1, p2p.MessageVersion2, p2p.MessageVersion3}
		errs = sortedEnum(pb.XuperMessage_ErrorType_name)
	}
	var out []optSpec
	for mask := 0; mask < 16; mask++ {
		vs := []*string{nil}
		if mask&4 != 0 {
			vs = nil
			for i := range versions {
				vs = append(vs, &versions[i])
			}
		}
		es := []*int32{nil}
		if mask&8 != 0 {
			es = nil
			for i := range errs {
				es = append(es, &errs[i])
			}
		}
		for _, v := range vs {
			for _, e := range es {
				o := optSpec{Version: v, ErrorType: e}
				if mask&1 != 0 {
					o.BCName = &bc
				}
				if mask&2 != 0 {
					o.LogID = &lg
				}
				out = append(out, o)
			}
		}
	}
	return out
}

// ---------------------------------------------------------------------------
// one built message and its wire round trip

type msgCtx struct {
	pk      *payloadKind
	typ     pb.XuperMessage_MessageType
	opt     optSpec
	payload proto.Message
	sent    *pb.XuperMessage
	wire    []byte
	rx      *pb.XuperMessage // what the receiver holds; never mutated
}

func buildCtx(pk *payloadKind, typ pb.XuperMessage_MessageType, opt optSpec) (*msgCtx, error) {
	c := &msgCtx{pk: pk, typ: typ, opt: opt, payload: pk.payload()}
	c.sent = p2p.NewMessage(typ, c.payload, opt.opts()...)
	w, err := proto.Marshal(c.sent)
	if err != nil {
		return nil, fmt.Errorf("envelope marshal: %v", err)
	}
	c.wire = w
	c.rx = &pb.XuperMessage{}
	if err := proto.Unmarshal(w, c.rx); err != nil {
		return nil, fmt.Errorf("envelope unmarshal: %v", err)
	}
	return c, nil
}

func (c *msgCtx) caseMap(kind string) map[string]interface{} {
	return map[string]interface{}{"part": "codec", "kind": kind, "payload": c.pk.Name, "type": int32(c.typ), "type_name": c.typ.String(), "opts": c.opt}
}

// rtIssue is one round-trip oracle failure.
type rtIssue struct {
	key, expected, observed string
}

// checkRoundTrip is oracle 1. It returns the outcome class and the issues.
func checkRoundTrip(c *msgCtx) (string, []rtIssue) {
	var issues []rtIssue
	out := c.pk.New()
	err := p2p.Unmarshal(c.rx, out)
	sumOK := p2p.VerifyChecksum(c.rx)
	outcome := "rt:ok"
	if c.payload == nil {
		// no payload was sent: there is nothing to compare; observed only
		if err != nil {
			outcome = "rt:nil_payload:receiver_unmarshal_error(observed,not_judged)"
		} else {
			outcome = "rt:nil_payload:receiver_gets_zero_value(observed,not_judged)"
		}
	} else {
		enc, _ := proto.Marshal(c.payload)
		switch {
		case err != nil && len(enc) == 0:
			localErr := p2p.Unmarshal(c.sent, c.pk.New())
			outcome = "rt:empty_payload_undecodable"
			issues = append(issues, rtIssue{
				key:      "c20.codec.empty_payload_undecodable_after_wire_round_trip",
				expected: "a payload that encodes to zero bytes decodes at the receiver to the identical (zero-valued) payload",
				observed: fmt.Sprintf("p2p.Unmarshal on the received message returns %q (received Data.MsgInfo==nil: %v; same call on the sender's in-process object: err=%v)", err, c.rx.GetData().GetMsgInfo() == nil, localErr),
			})
		case err != nil:
			outcome = "rt:unmarshal_error"
			issues = append(issues, rtIssue{key: "c20.codec.round_trip_unmarshal_error",
				expected: "the built message decodes at the receiver", observed: fmt.Sprintf("p2p.Unmarshal returns %q", err)})
		case !proto.Equal(out, c.payload):
			outcome = "rt:payload_differs"
			issues = append(issues, rtIssue{key: "c20.codec.round_trip_payload_differs",
				expected: "decoded payload proto.Equal to the sent one", observed: "decoded payload differs: " + clip(fmt.Sprintf("%v", out), 120)})
		}
	}
	if !sumOK {
		outcome += "+checksum_rejected"
		issues = append(issues, rtIssue{key: "c20.codec.round_trip_checksum_rejected",
			expected: "VerifyChecksum accepts an uncorrupted message", observed: "VerifyChecksum(received) == false"})
	}
	// the envelope header: type and options must arrive as built
	h := c.rx.GetHeader()
	var bad []string
	if !proto.Equal(c.sent.GetHeader(), h) {
		bad = append(bad, "received header != sent header")
	}
	if h.GetType() != c.typ {
		bad = append(bad, fmt.Sprintf("type %v != %v", h.GetType(), c.typ))
	}
	if c.opt.BCName != nil && h.GetBcname() != *c.opt.BCName {
		bad = append(bad, "bcname "+h.GetBcname())
	}
	if c.opt.LogID != nil && h.GetLogid() != *c.opt.LogID {
		bad = append(bad, "logid "+h.GetLogid())
	}
	if c.opt.Version != nil && h.GetVersion() != *c.opt.Version {
		bad = append(bad, "version "+h.GetVersion())
	}
	if c.opt.ErrorType != nil && int32(h.GetErrorType()) != *c.opt.ErrorType {
		bad = append(bad, "errorType "+h.GetErrorType().String())
	}
	if len(bad) > 0 {
		outcome += "+header_differs"
		issues = append(issues, rtIssue{key: "c20.codec.header_not_carried",
			expected: "message type and option values arrive as built", observed: strings.Join(bad, "; ")})
	}
	return outcome, issues
}

func clip(s string, n int) string {
	if len(s) > n {
		return s[:n] + "..."
	}
	return s
}

// ---------------------------------------------------------------------------
// corruption engine

// xorPattern XORs the b-bit pattern P into buf at bit offset s, read in the
// given bit order. P is read as a binary numeral: its leftmost digit (bit b-1)
// is the first bit of the window. Applying it twice restores buf.
func xorPattern(buf []byte, order, s, b int, P uint64) (k, nb int) {
	k = s >> 3
	r := s & 7
	nb = (r + b + 7) >> 3
	if order == orderLSB {
		v := bits.Reverse64(P) >> uint(64-b) << uint(r)
		for j := 0; j < nb; j++ {
			buf[k+j] ^= byte(v >> uint(8*j))
		}
	} else {
		v := P << uint(nb*8-r-b)
		for j := 0; j < nb; j++ {
			buf[k+j] ^= byte(v >> uint(8*(nb-1-j)))
		}
	}
	return
}

// judged: is the corruption inside the statement's quantifier? A burst of up to
// 32 bits is read in the order in which the checksum consumes the stream (LSB
// first). A window read MSB-first is such a burst whenever it lies within 4
// consecutive bytes (= 32 consecutive stream bits); wider MSB-first windows can
// spread over up to 40 stream bits and are observed, not judged.
func judged(order, s, b int) bool {
	if b > 32 {
		return false
	}
	if order == orderLSB {
		return true
	}
	return (s&7)+b <= 32
}

type pat struct {
	Order, S, B int
	P           uint64
}

type task struct {
	ctx    *msgCtx
	order  int
	s0, s1 int // bit offsets [s0,s1)
	b0, b1 int // burst lengths [b0,b1]
	chunk  bool
	midLo  uint64
	midHi  uint64
	wire   bool  // single-bit flips applied to the marshalled envelope, then proto.Unmarshal of the envelope
	list   []pat // explicit pattern list instead of the ranges
	group  string
	// round-trip task: every option combination of (pk, typ), plus the short sweeps on each
	rt     bool
	pk     *payloadKind
	typ    pb.XuperMessage_MessageType
	combos []optSpec
}

type badCase struct {
	key      string
	c        map[string]interface{}
	summary  string
	expected string
	observed string
}

type result struct {
	done        bool
	n           int // corruptions evaluated
	changed     int // ... that changed at least one byte of the payload
	judged      int
	detected    int // judged and rejected by both VerifyChecksum and Unmarshal
	passSum     int // judged, VerifyChecksum true
	delivered   int // judged, Unmarshal nil
	obsN        int // evaluated outside the statement's quantifier
	obsPass     int
	obsExamples []string
	wireLevel   int
	classes     [2][42]bool // (order, burst length) evaluated with a byte-changing corruption
	roundTrips  int
	rtRejected  int
	outcomes    map[string]int
	bad         []badCase // first per key, in enumeration order
	badCount    map[string]int
	samples     []interface{}
	harnessErr  string
	cut         bool // stopped early: more than maxBadPerTask judged corruptions went undetected
}

const maxBadPerTask = 1 << 10

func (r *result) addBad(b badCase) {
	if r.badCount == nil {
		r.badCount = map[string]int{}
	}
	r.badCount[b.key]++
	if r.badCount[b.key] == 1 {
		r.bad = append(r.bad, b)
	}
}

func (r *result) outcome(o string, n int) {
	if r.outcomes == nil {
		r.outcomes = map[string]int{}
	}
	r.outcomes[o] += n
}

type worker struct {
	ctx  *msgCtx
	msg  *pb.XuperMessage
	buf  []byte
	out  proto.Message
	wbuf []byte
}

func (w *worker) bind(c *msgCtx) {
	if w.ctx == c {
		return
	}
	w.ctx = c
	w.msg = proto.Clone(c.rx).(*pb.XuperMessage)
	if w.msg.Data == nil {
		w.msg.Data = &pb.XuperMessage_MessageData{}
	}
	w.buf = w.msg.Data.MsgInfo
	w.out = c.pk.New()
}

// evalOne applies one corruption, calls the real functions, restores.
func (w *worker) evalOne(order, s, b int, P uint64, wire bool) (changed, pass, delivered bool) {
	orig := w.ctx.rx.Data.MsgInfo
	if wire {
		// flip inside the marshalled envelope: Data.MsgInfo is the last field, hence a suffix
		w.wbuf = append(w.wbuf[:0], w.ctx.wire...)
		region := w.wbuf[len(w.wbuf)-len(orig):]
		k, nb := xorPattern(region, order, s, b, P)
		changed = !bytes.Equal(region[k:k+nb], orig[k:k+nb])
		m := &pb.XuperMessage{}
		if err := proto.Unmarshal(w.wbuf, m); err != nil {
			return changed, false, false // envelope itself refused: nothing delivered
		}
		pass = p2p.VerifyChecksum(m)
		delivered = p2p.Unmarshal(m, w.out) == nil
		return
	}
	k, nb := xorPattern(w.buf, order, s, b, P)
	changed = !bytes.Equal(w.buf[k:k+nb], orig[k:k+nb])
	pass = p2p.VerifyChecksum(w.msg)
	delivered = p2p.Unmarshal(w.msg, w.out) == nil
	xorPattern(w.buf, order, s, b, P)
	return
}

func (w *worker) account(res *result, order, s, b int, P uint64, wire, changed, pass, delivered bool) {
	res.n++
	if wire {
		res.wireLevel++
	}
	if changed {
		res.changed++
		if b < 42 {
			res.classes[order][b] = true
		}
	}
	if !judged(order, s, b) {
		res.obsN++
		if pass {
			res.obsPass++
			if len(res.obsExamples) < 4 {
				res.obsExamples = append(res.obsExamples, fmt.Sprintf("%s-first window of %d bits at bit %d pattern %#x (spans %d stream bits): VerifyChecksum=true delivered=%v",
					orderName[order], b, s, P, streamSpan(order, s, b, P), delivered))
			}
		}
		return
	}
	res.judged++
	if !pass && !delivered {
		res.detected++
		return
	}
	c := w.ctx.caseMap("corruption")
	c["order"] = orderName[order]
	c["bit_offset"] = s
	c["burst_len"] = b
	c["xor_pattern"] = fmt.Sprintf("%#x", P) // binary numeral, leftmost digit = first bit of the window
	c["wire"] = wire
	what := "single-bit flip"
	if b > 1 {
		what = fmt.Sprintf("%d-bit burst %#x", b, P)
	}
	where := fmt.Sprintf("%s at bit %d (%s-first) of the %d-byte encoded payload of %s type=%v (%s)", what, s, orderName[order], len(w.ctx.rx.Data.MsgInfo), w.ctx.pk.Name, w.ctx.typ, w.ctx.opt)
	if pass {
		res.passSum++
		res.addBad(badCase{key: "c20.codec.corruption_passes_checksum", c: c, summary: where + ": VerifyChecksum accepts the corrupted message",
			expected: "VerifyChecksum(corrupted) == false", observed: fmt.Sprintf("VerifyChecksum == true, Unmarshal delivered=%v", delivered)})
	}
	if delivered {
		res.delivered++
		res.addBad(badCase{key: "c20.codec.corruption_delivered", c: c, summary: where + ": Unmarshal delivers a payload from the corrupted message",
			expected: "Unmarshal(corrupted) returns an error", observed: fmt.Sprintf("Unmarshal == nil (VerifyChecksum=%v)", pass)})
	}
}

// streamSpan: width of the pattern measured in stream (LSB-first) bit positions.
func streamSpan(order, s, b int, P uint64) int {
	lo, hi := 1<<30, -1
	for j := 0; j < b; j++ {
		if P>>uint(b-1-j)&1 == 0 {
			continue
		}
		i := s + j
		if order == orderMSB {
			i = (i &^ 7) + 7 - (i & 7)
		}
		if i < lo {
			lo = i
		}
		if i > hi {
			hi = i
		}
	}
	return hi - lo + 1
}

func burst(b int, mid uint64) uint64 {
	if b == 1 {
		return 1
	}
	return 1<<uint(b-1) | mid<<1 | 1
}

func midCount(b int) uint64 {
	if b <= 2 {
		return 1
	}
	return 1 << uint(b-2)
}

// sweep evaluates the ranges of one task on the bound message.
func (w *worker) sweep(t *task, res *result) {
	nbits := len(w.buf) * 8
	if t.list != nil {
		for _, p := range t.list {
			if p.S+p.B > nbits {
				continue
			}
			ch, pass, del := w.evalOne(p.Order, p.S, p.B, p.P, false)
			w.account(res, p.Order, p.S, p.B, p.P, false, ch, pass, del)
		}
		return
	}
	for s := t.s0; s < t.s1; s++ {
		for b := t.b0; b <= t.b1; b++ {
			if s+b > nbits {
				break
			}
			lo, hi := uint64(0), midCount(b)
			if t.chunk {
				lo, hi = t.midLo, t.midHi
			}
			for mid := lo; mid < hi; mid++ {
				P := burst(b, mid)
				ch, pass, del := w.evalOne(t.order, s, b, P, t.wire)
				w.account(res, t.order, s, b, P, t.wire, ch, pass, del)
			}
			if res.judged-res.detected > maxBadPerTask {
				res.cut = true
				return
			}
		}
	}
}

// runRT: oracle 1 on every option combination of (payload kind, type); on the
// small payloads additionally, for every such message, all bursts of length <= 6
// at every offset in place and every single-bit flip at the level of the
// marshalled envelope.
func (w *worker) runRT(t *task, res *result) {
	for ci, o := range t.combos {
		c, err := buildCtx(t.pk, t.typ, o)
		if err != nil {
			res.harnessErr = err.Error()
			return
		}
		outcome, issues := checkRoundTrip(c)
		res.roundTrips++
		res.outcome(outcome, 1)
		if len(issues) > 0 {
			res.rtRejected++
		}
		for _, is := range issues {
			res.addBad(badCase{key: is.key, c: c.caseMap("round_trip"),
				summary:  fmt.Sprintf("NewMessage(%v, %s, %s) after the wire round trip: %s", t.typ, t.pk.Name, o, is.observed),
				expected: is.expected, observed: is.observed})
		}
		if ci == 0 && t.typ == 0 {
			res.samples = append(res.samples, map[string]interface{}{"case": c.caseMap("round_trip"), "encoded_payload_bytes": len(c.rx.GetData().GetMsgInfo()),
				"compressed": c.rx.GetHeader().GetEnableCompress(), "outcome": outcome})
		}
		n := len(c.rx.GetData().GetMsgInfo())
		if t.pk.Large || n == 0 {
			continue
		}
		w.bind(c)
		w.sweep(&task{order: orderLSB, s0: 0, s1: n * 8, b0: 1, b1: 6}, res)
		w.sweep(&task{order: orderLSB, s0: 0, s1: n * 8, b0: 1, b1: 1, wire: true}, res)
	}
}

func runTasks(rep *core.Report, tasks []*task) []result {
	results := make([]result, len(tasks))
	var next int64 = -1
	var wg sync.WaitGroup
	nw := runtime.NumCPU()
	if nw > 16 {
		nw = 16
	}
	if nw < 1 {
		nw = 1
	}
	for i := 0; i < nw; i++ {
		wg.Add(1)
		go func() {
			defer wg.Done()
			w := &worker{}
			for {
				i := int(atomic.AddInt64(&next, 1))
				if i >= len(tasks) || rep.Expired() {
					return
				}
				t := tasks[i]
				res := &results[i]
				if t.rt {
					w.runRT(t, res)
				} else {
					w.bind(t.ctx)
					w.sweep(t, res)
				}
				res.done = true
			}
		}()
	}
	wg.Wait()
	return results
}

// genSweep: tasks covering every burst of length bLo..bHi at the given offsets.
func genSweep(ctx *msgCtx, order int, offs []int, bLo, bHi int, group string) []*task {
	const small = 21 // lengths <= small at one offset form one task (<= 2^20 patterns)
	var out []*task
	if bHi <= 16 {
		// group 8 offsets per task
		for i := 0; i < len(offs); i += 8 {
			j := i + 8
			if j > len(offs) {
				j = len(offs)
			}
			contiguous := offs[j-1]-offs[i] == j-1-i
			if contiguous {
				out = append(out, &task{ctx: ctx, order: order, s0: offs[i], s1: offs[j-1] + 1, b0: bLo, b1: bHi, group: group})
			} else {
				for _, s := range offs[i:j] {
					out = append(out, &task{ctx: ctx, order: order, s0: s, s1: s + 1, b0: bLo, b1: bHi, group: group})
				}
			}
		}
		return out
	}
	for _, s := range offs {
		if bLo <= small {
			hi := bHi
			if hi > small {
				hi = small
			}
			out = append(out, &task{ctx: ctx, order: order, s0: s, s1: s + 1, b0: bLo, b1: hi, group: group})
		}
		for b := small + 1; b <= bHi; b++ {
			if b < bLo {
				continue
			}
			total := midCount(b)
			const chunk = 1 << 21
			for lo := uint64(0); lo < total; lo += chunk {
				hi := lo + chunk
				if hi > total {
					hi = total
				}
				out = append(out, &task{ctx: ctx, order: order, s0: s, s1: s + 1, b0: b, b1: b, chunk: true, midLo: lo, midHi: hi, group: group})
			}
		}
	}
	return out
}

func seq(lo, hi int) []int {
	var out []int
	for i := lo; i < hi; i++ {
		out = append(out, i)
	}
	return out
}

// largeList: the few corruptions applied to a 1 MiB payload.
func largeList(nbits int) []pat {
	var out []pat
	for _, order := range []int{orderLSB, orderMSB} {
		for s := 0; s < nbits; s++ {
			if s < 64 || s >= nbits-64 || s%4099 == 0 {
				out = append(out, pat{order, s, 1, 1})
			}
		}
		for _, b := range []int{2, 8, 16, 24, 31, 32} {
			for _, s := range []int{0, 3, nbits/2 + 5, nbits - b} {
				out = append(out, pat{order, s, b, burst(b, 0)}, pat{order, s, b, burst(b, midCount(b)-1)})
			}
		}
	}
	return out
}

// ---------------------------------------------------------------------------
// oracle 3: request -> response type map

type respIssue struct{ key, summary string }

func checkRespTypes() (table map[string]string, requests int, issues []respIssue) {
	table = map[string]string{}
	byName := pb.XuperMessage_MessageType_value
	seen := map[pb.XuperMessage_MessageType]pb.XuperMessage_MessageType{}
	for _, t := range allTypes() {
		r := p2p.GetRespMessageType(t)
		table[t.String()] = r.String()
		partner, isReq := byName[t.String()+"_RES"]
		if !isReq {
			continue // not a request type: observed only
		}
		requests++
		if r == t {
			issues = append(issues, respIssue{"c20.codec.resp_type_equals_request", fmt.Sprintf("GetRespMessageType(%v) == %v: response type equals the request type", t, r)})
		}
		if prev, dup := seen[r]; dup {
			issues = append(issues, respIssue{"c20.codec.resp_type_not_injective", fmt.Sprintf("GetRespMessageType maps both %v and %v to %v", prev, t, r)})
		}
		seen[r] = t
		if _, defined := pb.XuperMessage_MessageType_name[int32(r)]; !defined {
			issues = append(issues, respIssue{"c20.codec.resp_type_undefined", fmt.Sprintf("GetRespMessageType(%v) == %d which is not a message type", t, int32(r))})
		} else if int32(r) != partner {
			issues = append(issues, respIssue{"c20.codec.resp_type_not_partner", fmt.Sprintf("GetRespMessageType(%v) == %v, the enum names %v_RES as its response", t, r, t)})
		}
	}
	return
}

// ---------------------------------------------------------------------------
// negative control: multiples of the CRC-32 generator (33..40 bits wide) must be
// invisible to a CRC-32; shows that the observation "undetected" is reachable.

func generatorMultiples() []uint64 {
	const g = uint64(1)<<32 | 0x04C11DB7
	var out []uint64
	for q := uint64(1); q < 256; q += 2 {
		var p uint64
		for k := uint(0); k < 8; k++ {
			if q>>k&1 == 1 {
				p ^= g << k
			}
		}
		out = append(out, p)
	}
	return out
}

func bitLen(p uint64) int {
	n := 0
	for ; p != 0; p >>= 1 {
		n++
	}
	return n
}

// ---------------------------------------------------------------------------

// RunCodec enumerates the codec half of C20 and records violations / coverage in rep.
func RunCodec(rep *core.Report, tier core.Tier) {
	types := allTypes()
	fixed := optCombos(false)
	full := optCombos(true)
	L := 16

	// task lists; run order: cheap and diverse first (1 MiB cases, control, round trips), then the sweeps
	var tasks, tLarge, tCtl []*task
	// (A) round trips: payload kind x type x option combination (+ short sweeps on every small message)
	var tRT []*task
	for _, pk := range payloadKinds {
		for _, typ := range types {
			cs := full
			if pk.Large {
				cs = fixed
			}
			tRT = append(tRT, &task{rt: true, pk: pk, typ: typ, combos: cs, group: "round_trip+short"})
		}
	}
	// (B) full burst sweeps: every small payload x every option subset (type fixed), both bit orders
	sizes := map[string]interface{}{}
	harnessErr := ""
	for _, pk := range payloadKinds {
		c0, err := buildCtx(pk, pb.XuperMessage_GET_BLOCK, optSpec{})
		if err != nil {
			harnessErr = err.Error()
			break
		}
		plain := 0
		if c0.payload != nil {
			enc, _ := proto.Marshal(c0.payload)
			plain = len(enc)
		}
		n := len(c0.rx.GetData().GetMsgInfo())
		sizes[pk.Name] = map[string]int{"payload_bytes": plain, "encoded_bytes_on_wire(MsgInfo)": n}
		if n == 0 {
			continue
		}
		if pk.Large {
			tLarge = append(tLarge, &task{ctx: c0, list: largeList(n * 8), group: "large_few"})
			continue
		}
		for _, o := range fixed {
			c, err := buildCtx(pk, pb.XuperMessage_GET_BLOCK, o)
			if err != nil {
				harnessErr = err.Error()
				break
			}
			for _, order := range []int{orderLSB, orderMSB} {
				tasks = append(tasks, genSweep(c, order, seq(0, n*8), 1, L, fmt.Sprintf("all_offsets_len<=%d", L))...)
			}
		}
	}
	// (C) thorough: the 40-byte payload
	var ctx40 *msgCtx
	deep := 32
	if c, err := buildCtx(kindByName("blockid_40B(BlockID)"), pb.XuperMessage_GET_BLOCK, optSpec{}); err == nil {
		ctx40 = c
	} else {
		harnessErr = err.Error()
	}
	var deepOffsets [2][]int
	if tier == core.Thorough && ctx40 != nil {
		nb := len(ctx40.rx.Data.MsgInfo) * 8
		for _, order := range []int{orderLSB, orderMSB} {
			tasks = append(tasks, genSweep(ctx40, order, seq(0, nb), 17, 20, "all_offsets_len<=20")...)
		}
		// every burst of length 21..32 (with the above: all 2^31 patterns of length <= 32) at chosen
		// offsets: LSB-first (where the answer cannot depend on
		// the offset) at the first, an unaligned middle and the last offset; MSB-first at all 8
		// alignments (there the byte structure matters)
		deepOffsets = [2][]int{{0, 131, nb - deep}, seq(128, 136)}
		for _, order := range []int{orderLSB, orderMSB} {
			tasks = append(tasks, genSweep(ctx40, order, deepOffsets[order], 21, deep, fmt.Sprintf("%s_deep_len<=%d", orderName[order], deep))...)
		}
	}
	// (D) negative control
	if ctx40 != nil {
		var lst []pat
		for _, p := range generatorMultiples() {
			for _, s := range []int{0, 3, 131} {
				lst = append(lst, pat{orderLSB, s, bitLen(p), p})
			}
		}
		tCtl = append(tCtl, &task{ctx: ctx40, list: lst, group: "control_generator_multiples"})
	}
	tasks = append(append(append(tLarge, tCtl...), tRT...), tasks...)

	results := runTasks(rep, tasks)

	// aggregate in task order (deterministic)
	type agg struct{ n, judged, detected, pass, delivered, obsN, obsPass int }
	groups := map[string]*agg{}
	outcomes := map[string]int{}
	classes := map[string]bool{}
	total := result{}
	completed := true
	var obsExamples []string
	undetectedByKey := map[string]int{}
	cut := 0
	for i := range results {
		r := &results[i]
		t := tasks[i]
		if !r.done {
			completed = false
			continue
		}
		if r.harnessErr != "" {
			harnessErr = r.harnessErr
		}
		if r.cut {
			completed = false
			cut++
		}
		g := groups[t.group]
		if g == nil {
			g = &agg{}
			groups[t.group] = g
		}
		g.n += r.n
		g.judged += r.judged
		g.detected += r.detected
		g.pass += r.passSum
		g.delivered += r.delivered
		g.obsN += r.obsN
		g.obsPass += r.obsPass
		total.n += r.n
		total.changed += r.changed
		total.judged += r.judged
		total.detected += r.detected
		total.passSum += r.passSum
		total.delivered += r.delivered
		total.obsN += r.obsN
		total.obsPass += r.obsPass
		total.wireLevel += r.wireLevel
		total.roundTrips += r.roundTrips
		total.rtRejected += r.rtRejected
		for o, n := range r.outcomes {
			outcomes[o] += n
		}
		for _, e := range r.obsExamples {
			if len(obsExamples) < 6 {
				obsExamples = append(obsExamples, t.group+": "+e)
			}
		}
		name := ""
		if t.rt {
			name = t.pk.Name
		} else {
			name = t.ctx.pk.Name
		}
		for o := 0; o < 2; o++ {
			for b := 1; b < 42; b++ {
				if r.classes[o][b] {
					classes[fmt.Sprintf("%s|%s|len=%d", name, orderName[o], b)] = true
				}
			}
		}
		for _, b := range r.bad {
			rep.Violation(core.Violation{Key: b.key, Summary: b.summary, Case: b.c, Expected: b.expected, Observed: b.observed})
		}
		for k, n := range r.badCount {
			undetectedByKey[k] += n
		}
		for _, s := range r.samples {
			rep.Sample(s)
		}
	}
	if harnessErr != "" {
		rep.Violation(core.Violation{Key: "c20.codec.harness_error", Summary: "codec harness could not build a message: " + harnessErr})
	}

	// outcome classes of corruptions
	if total.detected > 0 {
		outcomes["corr:rejected_by_checksum_and_unmarshal"] = total.detected
	}
	if total.passSum > 0 {
		outcomes["corr:passes_checksum"] = total.passSum
	}
	if total.delivered > 0 {
		outcomes["corr:delivered"] = total.delivered
	}
	if total.obsN-total.obsPass > 0 {
		outcomes["observed_only:rejected"] = total.obsN - total.obsPass
	}
	if total.obsPass > 0 {
		outcomes["observed_only:passes_checksum"] = total.obsPass
	}

	// oracle 3
	table, nreq, rissues := checkRespTypes()
	for _, is := range rissues {
		rep.Violation(core.Violation{Key: is.key, Summary: is.summary, Case: map[string]interface{}{"part": "codec", "kind": "resp_type", "key": is.key},
			Expected: "GetRespMessageType is injective on request types, never returns the request type itself and returns the type the enum names <REQUEST>_RES", Observed: is.summary})
	}
	if len(rissues) == 0 {
		outcomes["resp:request_maps_to_its_own_distinct_response"] = nreq
	} else {
		outcomes["resp:bad_mapping"] = len(rissues)
	}

	evals := total.roundTrips + total.n + len(types)
	rep.Set("codec.evaluations", evals)
	rep.Set("codec.round_trips", total.roundTrips)
	rep.Set("codec.round_trips_with_issue", total.rtRejected)
	rep.Set("codec.corruptions", total.n)
	rep.Set("codec.corruptions_changed_bytes", total.changed)
	rep.Set("codec.corruptions_judged", total.judged)
	rep.Set("codec.corruptions_detected", total.detected)
	rep.Set("codec.corruptions_passing_checksum", total.passSum)
	rep.Set("codec.corruptions_delivered", total.delivered)
	rep.Set("codec.corruptions_at_envelope_wire_level", total.wireLevel)
	rep.Set("codec.observed_only", map[string]interface{}{"evaluated": total.obsN, "passing_checksum": total.obsPass, "examples": obsExamples,
		"what": "patterns outside the statement's quantifier: MSB-first windows that do not fit in 4 bytes (they spread over 33..40 stream bits) and the negative control (multiples of the CRC-32 generator, 33..40 bits); counted, never a violation"})
	gm := map[string]interface{}{}
	for k, g := range groups {
		gm[k] = map[string]int{"corruptions": g.n, "judged": g.judged, "detected": g.detected, "passing_checksum": g.pass, "delivered": g.delivered, "observed_only": g.obsN, "observed_only_passing_checksum": g.obsPass}
	}
	rep.Set("codec.groups", gm)
	rep.Set("codec.outcomes", outcomes)
	rep.Set("codec.distinct_outcomes", len(outcomes))
	rep.Set("codec.violation_occurrences", undetectedByKey)
	rep.Set("codec.payload_sizes", sizes)
	rep.Set("codec.resp_type_table", table)
	rep.Set("codec.request_types", nreq)
	rep.Set("codec.message_types", len(types))
	rep.Set("codec.option_combinations", map[string]int{"subsets": len(fixed), "with_all_option_values(small payloads)": len(full)})
	rep.Set("codec.completed", completed)
	if cut > 0 {
		rep.Set("codec.tasks_cut_after_many_undetected", cut)
	}
	if !completed {
		rep.Set("exhaustive", false)
	}
	bound := fmt.Sprintf("%d payload kinds x %d message types x %d option combinations (16 subsets on the 1 MiB payloads); per small message: all bursts <= 6 bits at every offset + every single-bit flip on the marshalled envelope; per small payload x 16 option subsets x 2 bit orders: all bursts <= %d bits at every offset; 1 MiB payloads: %d chosen flips/bursts",
		len(payloadKinds), len(types), len(full), L, len(largeList(1<<23)))
	if tier == core.Thorough {
		bound += fmt.Sprintf("; 40-byte payload: all bursts <= 20 bits at every offset and all bursts <= %d bits (2^%d patterns each) at bit offsets %v (LSB-first) and %v (MSB-first)", deep, deep-1, deepOffsets[0], deepOffsets[1])
	}
	rep.Set("codec.bound", bound)
	rep.Set("codec.rule", "cases are enumerated in index order over payload kind x message type x option combination x bit order x bit offset x burst length x burst pattern (first and last bit of the window set); a case is non-trivial when the XOR changed at least one byte of the received Data.MsgInfo and the real VerifyChecksum and Unmarshal were called on it; distinct_nontrivial counts distinct (payload kind, bit order, burst length) classes with at least one such case")
	rep.Add("evaluations", evals)
	rep.Add("distinct_nontrivial", len(classes))
	rep.Sample(map[string]interface{}{"kind": "corruption_sweep", "payload": "blockid_40B(BlockID)", "real_functions_called_on_every_pattern": "p2p.VerifyChecksum, p2p.Unmarshal", "groups": gm})

	rep.Assume("codec: the checksum covers Data.MsgInfo after compression (the bytes that travel); corruptions are applied to exactly these bytes. Header fields (checksum, compress flag) are outside 'the encoded payload' and are not corrupted.")
	rep.Assume("codec: a burst of b bits is a window of b consecutive bits of the byte stream whose first and last bit are flipped, bits of a byte taken least-significant first (the order in which CRC-32/IEEE consumes the stream, Ethernet wire order). Windows read most-significant-bit first are enumerated too; they are judged when they lie within 4 consecutive bytes (then they are bursts of <= 32 stream bits) and only observed otherwise.")
	rep.Assume("codec generalisation (not counted as coverage): CRC is linear, so whether a pattern is detected does not depend on the payload or on what follows it: a pattern e is missed iff the polynomial e(x) is a multiple of the generator g(x); x does not divide g (non-zero constant term), so shifting e by any offset does not change the answer; deg g = 32, so no non-zero e of width <= 32 is a multiple. Hence detection of all bursts <= 32 bits at the enumerated offsets extends to every offset and every payload, provided VerifyChecksum is the plain CRC-32 the enumeration exercised. The negative control (all 128 multiples of g that are 33..40 bits wide pass the checksum) confirms the model.")
	rep.Assume("codec: in-place corruption of the received Data.MsgInfo equals corruption of the same bytes inside the marshalled envelope (Data.MsgInfo is the envelope's last field); checked directly for every single-bit flip of every small message (" + fmt.Sprint(total.wireLevel) + " envelope-level cases).")
}

// ---------------------------------------------------------------------------

type codecCase struct {
	Part     string  `json:"part"`
	Kind     string  `json:"kind"`
	Payload  string  `json:"payload"`
	Type     int32   `json:"type"`
	Opts     optSpec `json:"opts"`
	Order    string  `json:"order"`
	Offset   int     `json:"bit_offset"`
	BurstLen int     `json:"burst_len"`
	Pattern  string  `json:"xor_pattern"`
	Wire     bool    `json:"wire"`
	Key      string  `json:"key"`
}

// ReplayCodec re-executes one codec case (the JSON put in Violation.Case by RunCodec).
func ReplayCodec(c json.RawMessage) (violated bool, msg string, err error) {
	var cs codecCase
	if err := json.Unmarshal(c, &cs); err != nil {
		return false, "", err
	}
	switch cs.Kind {
	case "resp_type":
		_, _, issues := checkRespTypes()
		for _, is := range issues {
			if cs.Key == "" || is.key == cs.Key {
				return true, is.key + ": " + is.summary, nil
			}
		}
		return false, "request/response type map satisfies the oracle", nil
	case "round_trip", "corruption":
	default:
		return false, "", fmt.Errorf("unknown codec case kind %q", cs.Kind)
	}
	pk := kindByName(cs.Payload)
	if pk == nil {
		return false, "", fmt.Errorf("unknown payload kind %q", cs.Payload)
	}
	ctx, err := buildCtx(pk, pb.XuperMessage_MessageType(cs.Type), cs.Opts)
	if err != nil {
		return false, "", err
	}
	if cs.Kind == "round_trip" {
		outcome, issues := checkRoundTrip(ctx)
		if len(issues) > 0 {
			return true, issues[0].key + ": " + issues[0].observed, nil
		}
		return false, "round trip " + outcome, nil
	}
	order := orderLSB
	if cs.Order == "msb" {
		order = orderMSB
	}
	var P uint64
	if _, err := fmt.Sscanf(cs.Pattern, "0x%x", &P); err != nil {
		return false, "", fmt.Errorf("pattern %q: %v", cs.Pattern, err)
	}
	n := len(ctx.rx.GetData().GetMsgInfo())
	if cs.BurstLen < 1 || cs.BurstLen > 40 || cs.Offset < 0 || cs.Offset+cs.BurstLen > n*8 || P>>uint(cs.BurstLen) != 0 {
		return false, "", fmt.Errorf("corruption does not fit the %d-byte encoded payload", n)
	}
	w := &worker{}
	w.bind(ctx)
	changed, pass, delivered := w.evalOne(order, cs.Offset, cs.BurstLen, P, cs.Wire)
	if !changed {
		return false, "pattern changes nothing", nil
	}
	if pass || delivered {
		return true, fmt.Sprintf("corrupted message: VerifyChecksum=%v, Unmarshal delivered=%v", pass, delivered), nil
	}
	return false, "corruption rejected by VerifyChecksum and Unmarshal", nil
}
