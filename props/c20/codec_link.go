package c20

func init() {
	runCodec = RunCodec
	replayCodec = ReplayCodec
}
