package c20

import (
	"fmt"
	"runtime"
	"sort"
	"strings"
	"sync"
	"sync/atomic"
	"time"

	xconf "github.com/xuperchain/xupercore/kernel/common/xconfig"
	xctx "github.com/xuperchain/xupercore/kernel/common/xcontext"
	nctx "github.com/xuperchain/xupercore/kernel/network/context"
	"github.com/xuperchain/xupercore/kernel/network/p2p"
	"github.com/xuperchain/xupercore/lib/timer"
	pb "github.com/xuperchain/xupercore/protos"

	"verif/core"
	"verif/engine/vsched"
	"verif/world"
)

// dispatcher fixture: three recording subscribers, three messages.
type fixture struct {
	sp    *spec
	d     p2p.Dispatcher
	subs  []p2p.Subscriber
	msgs  []*pb.XuperMessage
	mu    sync.Mutex
	clock int
	// deliveries: one entry per handler call
	deliveries []delivery
	// intervals of finished operations
	ops []opRec
	// dispatches not judged because they fell on the edge of the de-duplication window
	unjudged int
}

type delivery struct {
	sub, msg int
	at       int
}

type opRec struct {
	kind       string // reg | unreg | disp
	arg        int
	start, end int
	err        string
	wall       time.Time
}

type recStream struct{}

func (recStream) Send(*pb.XuperMessage) error { return nil }

// endpoint is a subscriber (type + filters, "" = filter not set) or a message
// (type + header fields).
type endpoint struct {
	typ    pb.XuperMessage_MessageType
	bc, fr string
	// messages only: log id ("" = "log-<index>", distinct per message) and payload
	logid, payload string
}

// spec is the population of one fixture.
type spec struct {
	subs, msgs []endpoint
}

var subSpec = []endpoint{
	{typ: pb.XuperMessage_GET_BLOCK, bc: "xuper"},
	{typ: pb.XuperMessage_GET_BLOCK, fr: "peerA"},
	{typ: pb.XuperMessage_POSTTX},
}

var msgSpec = []endpoint{
	{typ: pb.XuperMessage_GET_BLOCK, bc: "xuper", fr: "peerA"}, // matches s0, s1
	{typ: pb.XuperMessage_GET_BLOCK, bc: "xuper", fr: "peerB"}, // matches s0
	{typ: pb.XuperMessage_POSTTX, bc: "other", fr: "peerB"},    // matches s2
}

// Header variants of the operation-sequence and schedule enumeration: the
// header of message m0 (the one every concurrent pattern dispatches) takes every
// value of From x Bcname below; the values are chosen relative to the filters of
// s1 (sender "peerA") and s0 (chain "xuper"): equal, empty, another value, a
// proper prefix, an extension. Variant 0 is the base population above.
var (
	varFrom = []string{"peerA", "", "peerB", "peer", "peerAx"}
	varBc   = []string{"xuper", "", "other", "xupe", "xuperx"}
)

func numVariants() int { return len(varFrom) * len(varBc) }

func variantSpec(v int) *spec {
	sp := &spec{subs: subSpec, msgs: append([]endpoint(nil), msgSpec...)}
	if v >= numVariants() {
		// twin population: the base population plus message m3, a twin of m0
		sp.msgs = append(sp.msgs, twinKinds[v-numVariants()].of(sp.ident(0)).endpoint())
		return sp
	}
	sp.msgs[0].fr = varFrom[v%len(varFrom)]
	sp.msgs[0].bc = varBc[v/len(varFrom)%len(varBc)]
	return sp
}

func variantName(v int) string {
	sp := variantSpec(v)
	if v >= numVariants() {
		return fmt.Sprintf("m3 = twin of m0 (%s) %s", twinKinds[v-numVariants()].name, sp.ident(3))
	}
	return fmt.Sprintf("m0[from=%q bc=%q]", sp.msgs[0].fr, sp.msgs[0].bc)
}

// matches is the reference predicate: same type, and every filter that is set
// equals the header field.
func (sp *spec) matches(si, mi int) bool {
	s, m := sp.subs[si], sp.msgs[mi]
	if s.typ != m.typ {
		return false
	}
	if s.bc != "" && s.bc != m.bc {
		return false
	}
	if s.fr != "" && s.fr != m.fr {
		return false
	}
	return true
}

func newFixture() *fixture { return newFixtureVariant(0) }

func newFixtureVariant(v int) *fixture {
	world.Init()
	f := &fixture{sp: variantSpec(v)}
	ctx := &nctx.NetCtx{EnvCfg: xconf.GetDefEnvConf()}
	ctx.XLog = world.NopLogger{}
	ctx.Timer = timer.NewXTimer()
	f.d = p2p.NewDispatcher(ctx)
	for si, s := range f.sp.subs {
		si := si
		var opts []p2p.SubscriberOption
		if s.bc != "" {
			opts = append(opts, p2p.WithFilterBCName(s.bc))
		}
		if s.fr != "" {
			opts = append(opts, p2p.WithFilterFrom(s.fr))
		}
		h := p2p.HandleFunc(func(c xctx.XContext, m *pb.XuperMessage) (*pb.XuperMessage, error) {
			mi := -1
			for k, mm := range f.msgs {
				if mm == m {
					mi = k
				}
			}
			f.mu.Lock()
			f.clock++
			f.deliveries = append(f.deliveries, delivery{sub: si, msg: mi, at: f.clock})
			f.mu.Unlock()
			return p2p.NewMessage(p2p.GetRespMessageType(m.Header.Type), nil), nil
		})
		f.subs = append(f.subs, p2p.NewSubscriber(ctx, s.typ, h, opts...))
	}
	for k := range f.sp.msgs {
		f.msgs = append(f.msgs, f.sp.ident(k).build())
	}
	return f
}

// op performs one operation and records its interval.
func (f *fixture) op(kind string, arg int) {
	f.mu.Lock()
	f.clock++
	start := f.clock
	f.mu.Unlock()
	var err error
	switch kind {
	case "reg":
		err = f.d.Register(f.subs[arg])
	case "unreg":
		err = f.d.UnRegister(f.subs[arg])
	case "disp":
		err = f.d.Dispatch(f.msgs[arg], recStream{})
	}
	f.mu.Lock()
	f.clock++
	r := opRec{kind: kind, arg: arg, start: start, end: f.clock, wall: time.Now()}
	if err != nil {
		r.err = err.Error()
	}
	f.ops = append(f.ops, r)
	f.mu.Unlock()
}

// judge evaluates the dispatch oracle on the recorded history.
func (f *fixture) judge() []string {
	var out []string
	f.mu.Lock()
	defer f.mu.Unlock()
	ops := append([]opRec(nil), f.ops...)
	sort.Slice(ops, func(a, b int) bool { return ops[a].start < ops[b].start })
	// registration intervals per subscriber from successful reg / unreg operations
	type span struct{ from, to int } // certainly registered in (from, to)
	regSpans := map[int][]span{}
	maybe := map[int][]span{} // possibly registered
	for si := range f.sp.subs {
		var certainFrom, maybeFrom = -1, -1
		for _, o := range ops {
			if o.arg != si || o.err != "" {
				continue
			}
			switch o.kind {
			case "reg":
				if maybeFrom < 0 {
					maybeFrom = o.start
				}
				certainFrom = o.end
			case "unreg":
				if certainFrom >= 0 {
					regSpans[si] = append(regSpans[si], span{certainFrom, o.start})
				}
				if maybeFrom >= 0 {
					maybe[si] = append(maybe[si], span{maybeFrom, o.end})
				}
				certainFrom, maybeFrom = -1, -1
			}
		}
		if certainFrom >= 0 {
			regSpans[si] = append(regSpans[si], span{certainFrom, 1 << 30})
		}
		if maybeFrom >= 0 {
			maybe[si] = append(maybe[si], span{maybeFrom, 1 << 30})
		}
	}
	covers := func(sp []span, a, b int) bool {
		for _, s := range sp {
			if s.from <= a && b <= s.to {
				return true
			}
		}
		return false
	}
	overlaps := func(sp []span, a, b int) bool {
		for _, s := range sp {
			if s.from <= b && a <= s.to {
				return true
			}
		}
		return false
	}
	// handled: message -> end time of the first dispatch that delivered it to somebody
	for di, o := range ops {
		if o.kind != "disp" {
			continue
		}
		mi := o.arg
		// deliveries inside this dispatch's interval for this message
		count := map[int]int{}
		for _, dl := range f.deliveries {
			if dl.msg == mi && dl.at > o.start && dl.at < o.end {
				count[dl.sub]++
			}
		}
		// is it a sequential repeat of a dispatch that delivered to somebody and finished before?
		repeat := false
		concurrentSame := false
		windowEdge := false
		twinRel, twinOf := "", -1
		for dj, p := range ops {
			if dj == di || p.kind != "disp" {
				continue
			}
			if !f.sp.same(p.arg, mi) {
				// a DIFFERENT message (reference: header tuple and payload) that was handled
				// just before: must not make this one a repeat. Remember how the two relate.
				if rel := identRelation(f.sp.ident(p.arg), f.sp.ident(mi)); rel != relUnrelated && p.end < o.start && p.err == "" && o.wall.Sub(p.wall) < 1500*time.Millisecond {
					if twinRel == "" {
						twinRel, twinOf = rel, p.arg
					}
				}
				continue
			}
			if p.end < o.start {
				// a dispatch that returned without error marked the message handled,
				// whether or not anybody was registered to receive it
				if gap := o.wall.Sub(p.wall); p.err == "" && gap < 1500*time.Millisecond {
					repeat = true
				} else if p.err == "" && gap < 4500*time.Millisecond {
					windowEdge = true // a stalled machine: the 3 s window may or may not have elapsed
				}
			} else if p.start < o.end {
				concurrentSame = true
			}
		}
		if concurrentSame {
			continue // two dispatches of the same message at once: attribution is ambiguous, not judged
		}
		if windowEdge && !repeat {
			f.unjudged++
			continue
		}
		for si := range f.sp.subs {
			n := count[si]
			switch {
			case !f.sp.matches(si, mi):
				if n > 0 {
					out = append(out, fmt.Sprintf("c20.dispatch.delivered_to_non_matching: message m%d was handed to subscriber s%d whose type / filters do not match", mi, si))
				}
			case repeat:
				if n > 0 {
					out = append(out, fmt.Sprintf("c20.dispatch.repeat_delivered: a repeat of handled message m%d was delivered to s%d", mi, si))
				}
			case covers(regSpans[si], o.start, o.end):
				if n == 0 && twinRel != "" {
					out = append(out, fmt.Sprintf("c20.dedup.distinct_message_dropped_as_repeat.%s: message m%d %s was not handed to s%d (registered and matching during the whole dispatch) after the DIFFERENT message m%d %s had been handled inside the de-duplication window", twinRel, mi, f.sp.ident(mi), si, twinOf, f.sp.ident(twinOf)))
				} else if n != 1 {
					out = append(out, fmt.Sprintf("c20.dispatch.not_exactly_once: message m%d was handed %d times to s%d, registered and matching during the whole dispatch", mi, n, si))
				}
			case overlaps(maybe[si], o.start, o.end):
				if n > 1 {
					out = append(out, fmt.Sprintf("c20.dispatch.more_than_once: message m%d was handed %d times to s%d", mi, n, si))
				}
			default:
				if n > 0 {
					out = append(out, fmt.Sprintf("c20.dispatch.delivered_to_unregistered: message m%d was handed to s%d which was not registered", mi, si))
				}
			}
		}
	}
	return out
}

var opNames = []struct {
	kind string
	arg  int
}{
	{"reg", 0}, {"reg", 1}, {"reg", 2}, {"unreg", 0}, {"unreg", 1}, {"unreg", 2}, {"disp", 0}, {"disp", 1}, {"disp", 2},
	{"disp", 3}, // twin populations only
}

// numOps is the size of the operation alphabet of population v.
func numOps(v int) int {
	if v >= numVariants() {
		return len(opNames)
	}
	return len(opNames) - 1
}

func opStr(i int) string { return fmt.Sprintf("%s(%d)", opNames[i].kind, opNames[i].arg) }

// seqResult is what one enumerated sequence produced.
type seqResult struct {
	deliveries int
	unjudged   int
	sig        string
	viol       []string
}

func runOneSequence(v int, idx []int) seqResult {
	f := newFixtureVariant(v)
	for _, o := range idx {
		f.op(opNames[o].kind, opNames[o].arg)
	}
	r := seqResult{deliveries: len(f.deliveries)}
	// signature = multiset of deliveries (the handlers of one dispatch run side by
	// side, their order is not an observable of the sequence)
	var ds []string
	for _, d := range f.deliveries {
		ds = append(ds, fmt.Sprintf("%d>%d", d.msg, d.sub))
	}
	sort.Strings(ds)
	r.sig = strings.Join(ds, ";")
	r.viol = f.judge()
	r.unjudged = f.unjudged
	return r
}

func decodeSeq(c, n, nops int) []int {
	idx := make([]int, n)
	for k := 0; k < n; k++ {
		idx[k] = c % nops
		c /= nops
	}
	return idx
}

// runSequential enumerates all operation sequences of length n over the header
// variants [v0, v1) (variant 0 = base population). The sequences are independent
// (own dispatcher each) and are executed by a pool of workers; results are
// gathered and reported in index order.
func runSequential(rep *core.Report, n, v0, v1 int, label string) (seqs int, deliveries int) {
	outcomes := map[string]bool{}
	nw := runtime.NumCPU()
	if nw > 16 {
		nw = 16
	}
	for v := v0; v < v1; v++ {
		nops := numOps(v)
		total := 1
		for k := 0; k < n; k++ {
			total *= nops
		}
		res := make([]seqResult, total)
		done := make([]bool, total)
		var next int64 = -1
		var wg sync.WaitGroup
		for w := 0; w < nw; w++ {
			wg.Add(1)
			go func() {
				defer wg.Done()
				for {
					c := int(atomic.AddInt64(&next, 1))
					if c >= total {
						return
					}
					if c%997 == 0 && rep.Expired() {
						return
					}
					res[c] = runOneSequence(v, decodeSeq(c, n, nops))
					done[c] = true
				}
			}()
		}
		wg.Wait()
		for c := 0; c < total; c++ {
			if !done[c] {
				continue
			}
			seqs++
			deliveries += res[c].deliveries
			rep.Add("dispatch.window_edge_dispatches_not_judged", res[c].unjudged)
			outcomes[fmt.Sprintf("v%d:", v)+res[c].sig] = true
			for _, m := range res[c].viol {
				idx := decodeSeq(c, n, nops)
				var names []string
				for _, o := range idx {
					names = append(names, opStr(o))
				}
				rep.Violation(core.Violation{Key: partKey(m, ".sequential"), Summary: fmt.Sprintf("%s, after %v: %s", variantName(v), names, m),
					Case: map[string]interface{}{"part": "dispatch-seq", "ops": idx, "variant": v}})
			}
		}
		if rep.HitDeadline() {
			break
		}
	}
	rep.Set("dispatch.sequential_distinct_outcomes"+label, len(outcomes))
	return
}

// partKey is the violation key of a judge message: its class plus the part of
// the enumeration that found it; the de-duplication identity classes carry no
// part suffix (one defect, one key, whichever part meets it first).
func partKey(msg, suffix string) string {
	k := keyOf(msg)
	if strings.HasPrefix(k, "c20.dedup.") {
		return k
	}
	return k + suffix
}

func keyOf(msg string) string {
	if i := strings.Index(msg, ":"); i >= 0 {
		return msg[:i]
	}
	return msg
}

// concurrent patterns: per thread a list of indexes into opNames.
var concPatterns = []struct {
	Name    string
	Pre     []int // executed sequentially before the threads start
	Threads [][]int
}{
	{"disp_vs_unreg", []int{0, 1}, [][]int{{6}, {3}}},          // s0,s1 registered; dispatch m0 || unregister s0
	{"disp_vs_reg", []int{0}, [][]int{{6}, {1}}},               // dispatch m0 || register s1
	{"disp_disp_reg", []int{0}, [][]int{{6}, {7}, {1}}},        // two different messages || register
	{"disp_then_repeat", []int{0, 1}, [][]int{{6, 6}, {4, 1}}}, // repeat after handled || unregister+register s1
	{"reg_unreg_disp", []int{}, [][]int{{0, 3}, {6}, {1}}},     // register/unregister s0 || dispatch || register s1
	{"two_types", []int{0, 2}, [][]int{{6}, {8}, {5}}},         // GET_BLOCK and POSTTX dispatches || unregister s2
	// twin populations only (op 9 = dispatch m3, the twin of m0)
	{"twin_then_original", []int{0, 1, 2}, [][]int{{9, 6}, {4, 1}}},  // twin, then m0 || unregister+register s1
	{"original_then_twin", []int{0, 1, 2}, [][]int{{6, 9}, {3, 0}}},  // m0, then twin || unregister+register s0
	{"twin_and_original_crossed", []int{0}, [][]int{{6, 9}, {9, 6}}}, // s0 alone; m0, twin || twin, m0
}

// the first basePatterns patterns run on the base population and the header
// variants, the others on the twin populations
const basePatterns = 6

func patternRange(v int) (int, int) {
	if v >= numVariants() {
		return basePatterns, len(concPatterns)
	}
	return 0, basePatterns
}

func newConc(pi int) func() vsched.Instance { return newConcVariant(pi, 0) }

func newConcVariant(pi, v int) func() vsched.Instance {
	p := concPatterns[pi]
	return func() vsched.Instance {
		f := newFixtureVariant(v)
		for _, o := range p.Pre {
			f.op(opNames[o].kind, opNames[o].arg)
		}
		var bodies []func()
		for _, ops := range p.Threads {
			ops := ops
			bodies = append(bodies, func() {
				for _, o := range ops {
					f.op(opNames[o].kind, opNames[o].arg)
				}
			})
		}
		check := func(o vsched.Outcome) []string {
			var out []string
			if o.Deadlock {
				return []string{"c20.dispatch.deadlock: " + strings.Join(o.Blocked, "; ")}
			}
			if o.Livelock {
				return []string{"c20.dispatch.livelock"}
			}
			for _, pn := range o.Panics {
				out = append(out, "c20.dispatch.panic: "+strings.SplitN(pn, "\n", 2)[0])
			}
			return append(out, f.judge()...)
		}
		return vsched.Instance{Bodies: bodies, Check: check}
	}
}

// runConcurrent explores all interleavings of each pattern within the bound,
// for the header variants [v0, v1). Explorations of different variants are
// independent and run side by side; they are reported in (variant, pattern) order.
func runConcurrent(rep *core.Report, bound, v0, v1 int) (schedules int, complete bool) {
	complete = true
	type cell struct{ x *vsched.Explorer }
	cells := make([][]cell, v1-v0)
	par := 1
	if v1-v0 > 1 {
		par = 4
	}
	sem := make(chan struct{}, par)
	var wg sync.WaitGroup
	for v := v0; v < v1; v++ {
		cells[v-v0] = make([]cell, len(concPatterns))
		wg.Add(1)
		sem <- struct{}{}
		go func(v int) {
			defer wg.Done()
			defer func() { <-sem }()
			p0, p1 := patternRange(v)
			for pi := p0; pi < p1; pi++ {
				x := &vsched.Explorer{New: newConcVariant(pi, v), Bound: bound, Workers: 4, Horizon: 2000, Stop: rep.Expired}
				x.Explore()
				cells[v-v0][pi].x = x
			}
		}(v)
	}
	wg.Wait()
	for v := v0; v < v1; v++ {
		p0, p1 := patternRange(v)
		for pi := p0; pi < p1; pi++ {
			p := concPatterns[pi]
			x := cells[v-v0][pi].x
			schedules += x.Executions
			rep.Add("dispatch.schedules_by_pattern."+p.Name, x.Executions)
			if x.Stopped {
				complete = false
			}
			msgs := make([]string, 0, len(x.Violations))
			for m := range x.Violations {
				msgs = append(msgs, m)
			}
			sort.Strings(msgs)
			for _, m := range msgs {
				sum := m
				if v != 0 {
					sum = variantName(v) + ": " + m
				}
				rep.Violation(core.Violation{Key: partKey(m, ".concurrent."+p.Name), Summary: sum,
					Case: map[string]interface{}{"part": "dispatch-conc", "pattern": pi, "variant": v, "schedule": x.Violations[m].Choices}})
			}
			if v == 0 {
				rep.Sample(map[string]interface{}{"part": "dispatch-conc", "pattern": p.Name, "preemption_bound": bound, "schedules": x.Executions, "max_points": x.MaxPoints})
			}
		}
	}
	return
}

// RacePassBodies runs the concurrent patterns free-running (no scheduler); used
// by the separate -race pass.
func RacePassBodies(reps int) {
	for pi := range concPatterns {
		v := 0
		if pi >= basePatterns {
			v = numVariants() // the payload-only twin population
		}
		for r := 0; r < reps; r++ {
			in := newConcVariant(pi, v)()
			var wg sync.WaitGroup
			for _, b := range in.Bodies {
				wg.Add(1)
				go func(b func()) { defer wg.Done(); b() }(b)
			}
			wg.Wait()
		}
	}
}
