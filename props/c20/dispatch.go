package c20

import (
	"fmt"
	"sort"
	"strings"
	"sync"
	"time"

	xconf "github.com/xuperchain/xupercore/kernel/common/xconfig"
	xctx "github.com/xuperchain/xupercore/kernel/common/xcontext"
	nctx "github.com/xuperchain/xupercore/kernel/network/context"
	"github.com/xuperchain/xupercore/kernel/network/p2p"
	"github.com/xuperchain/xupercore/lib/timer"
	pb "github.com/xuperchain/xupercore/protos"

	"verif/core"
	"verif/engine/vsched"
	"verif/world"
)

// dispatcher fixture: three recording subscribers, three messages.
type fixture struct {
	d     p2p.Dispatcher
	subs  []p2p.Subscriber
	msgs  []*pb.XuperMessage
	mu    sync.Mutex
	clock int
	// deliveries: one entry per handler call
	deliveries []delivery
	// intervals of finished operations
	ops []opRec
}

type delivery struct {
	sub, msg int
	at       int
}

type opRec struct {
	kind       string // reg | unreg | disp
	arg        int
	start, end int
	err        string
	wall       time.Time
}

type recStream struct{}

func (recStream) Send(*pb.XuperMessage) error { return nil }

var subSpec = []struct {
	typ    pb.XuperMessage_MessageType
	bc, fr string
}{
	{pb.XuperMessage_GET_BLOCK, "xuper", ""},
	{pb.XuperMessage_GET_BLOCK, "", "peerA"},
	{pb.XuperMessage_POSTTX, "", ""},
}

var msgSpec = []struct {
	typ    pb.XuperMessage_MessageType
	bc, fr string
}{
	{pb.XuperMessage_GET_BLOCK, "xuper", "peerA"}, // matches s0, s1
	{pb.XuperMessage_GET_BLOCK, "xuper", "peerB"}, // matches s0
	{pb.XuperMessage_POSTTX, "other", "peerB"},    // matches s2
}

func matches(si, mi int) bool {
	s, m := subSpec[si], msgSpec[mi]
	if s.typ != m.typ {
		return false
	}
	if s.bc != "" && s.bc != m.bc {
		return false
	}
	if s.fr != "" && s.fr != m.fr {
		return false
	}
	return true
}

func newFixture() *fixture {
	world.Init()
	f := &fixture{}
	ctx := &nctx.NetCtx{EnvCfg: xconf.GetDefEnvConf()}
	ctx.XLog = world.NopLogger{}
	ctx.Timer = timer.NewXTimer()
	f.d = p2p.NewDispatcher(ctx)
	for si, s := range subSpec {
		si := si
		var opts []p2p.SubscriberOption
		if s.bc != "" {
			opts = append(opts, p2p.WithFilterBCName(s.bc))
		}
		if s.fr != "" {
			opts = append(opts, p2p.WithFilterFrom(s.fr))
		}
		h := p2p.HandleFunc(func(c xctx.XContext, m *pb.XuperMessage) (*pb.XuperMessage, error) {
			mi := -1
			for k, mm := range f.msgs {
				if mm == m {
					mi = k
				}
			}
			f.mu.Lock()
			f.clock++
			f.deliveries = append(f.deliveries, delivery{sub: si, msg: mi, at: f.clock})
			f.mu.Unlock()
			return p2p.NewMessage(p2p.GetRespMessageType(m.Header.Type), nil), nil
		})
		f.subs = append(f.subs, p2p.NewSubscriber(ctx, s.typ, h, opts...))
	}
	for k, m := range msgSpec {
		msg := p2p.NewMessage(m.typ, &pb.XuperMessage{}, p2p.WithBCName(m.bc), p2p.WithLogId(fmt.Sprintf("log-%d", k)))
		msg.Header.From = m.fr
		f.msgs = append(f.msgs, msg)
	}
	return f
}

// op performs one operation and records its interval.
func (f *fixture) op(kind string, arg int) {
	f.mu.Lock()
	f.clock++
	start := f.clock
	f.mu.Unlock()
	var err error
	switch kind {
	case "reg":
		err = f.d.Register(f.subs[arg])
	case "unreg":
		err = f.d.UnRegister(f.subs[arg])
	case "disp":
		err = f.d.Dispatch(f.msgs[arg], recStream{})
	}
	f.mu.Lock()
	f.clock++
	r := opRec{kind: kind, arg: arg, start: start, end: f.clock, wall: time.Now()}
	if err != nil {
		r.err = err.Error()
	}
	f.ops = append(f.ops, r)
	f.mu.Unlock()
}

// judge evaluates the dispatch oracle on the recorded history.
func (f *fixture) judge() []string {
	var out []string
	f.mu.Lock()
	defer f.mu.Unlock()
	ops := append([]opRec(nil), f.ops...)
	sort.Slice(ops, func(a, b int) bool { return ops[a].start < ops[b].start })
	// registration intervals per subscriber from successful reg / unreg operations
	type span struct{ from, to int } // certainly registered in (from, to)
	regSpans := map[int][]span{}
	maybe := map[int][]span{} // possibly registered
	for si := range subSpec {
		var certainFrom, maybeFrom = -1, -1
		for _, o := range ops {
			if o.arg != si || o.err != "" {
				continue
			}
			switch o.kind {
			case "reg":
				if maybeFrom < 0 {
					maybeFrom = o.start
				}
				certainFrom = o.end
			case "unreg":
				if certainFrom >= 0 {
					regSpans[si] = append(regSpans[si], span{certainFrom, o.start})
				}
				if maybeFrom >= 0 {
					maybe[si] = append(maybe[si], span{maybeFrom, o.end})
				}
				certainFrom, maybeFrom = -1, -1
			}
		}
		if certainFrom >= 0 {
			regSpans[si] = append(regSpans[si], span{certainFrom, 1 << 30})
		}
		if maybeFrom >= 0 {
			maybe[si] = append(maybe[si], span{maybeFrom, 1 << 30})
		}
	}
	covers := func(sp []span, a, b int) bool {
		for _, s := range sp {
			if s.from <= a && b <= s.to {
				return true
			}
		}
		return false
	}
	overlaps := func(sp []span, a, b int) bool {
		for _, s := range sp {
			if s.from <= b && a <= s.to {
				return true
			}
		}
		return false
	}
	// handled: message -> end time of the first dispatch that delivered it to somebody
	for di, o := range ops {
		if o.kind != "disp" {
			continue
		}
		mi := o.arg
		// deliveries inside this dispatch's interval for this message
		count := map[int]int{}
		for _, dl := range f.deliveries {
			if dl.msg == mi && dl.at > o.start && dl.at < o.end {
				count[dl.sub]++
			}
		}
		// is it a sequential repeat of a dispatch that delivered to somebody and finished before?
		repeat := false
		concurrentSame := false
		for dj, p := range ops {
			if dj == di || p.kind != "disp" || p.arg != mi {
				continue
			}
			if p.end < o.start {
				// a dispatch that returned without error marked the message handled,
				// whether or not anybody was registered to receive it
				if p.err == "" && o.wall.Sub(p.wall) < 1500*time.Millisecond {
					repeat = true
				}
			} else if p.start < o.end {
				concurrentSame = true
			}
		}
		if concurrentSame {
			continue // two dispatches of the same message at once: attribution is ambiguous, not judged
		}
		for si := range subSpec {
			n := count[si]
			switch {
			case !matches(si, mi):
				if n > 0 {
					out = append(out, fmt.Sprintf("c20.dispatch.delivered_to_non_matching: message m%d was handed to subscriber s%d whose type / filters do not match", mi, si))
				}
			case repeat:
				if n > 0 {
					out = append(out, fmt.Sprintf("c20.dispatch.repeat_delivered: a repeat of handled message m%d was delivered to s%d", mi, si))
				}
			case covers(regSpans[si], o.start, o.end):
				if n != 1 {
					out = append(out, fmt.Sprintf("c20.dispatch.not_exactly_once: message m%d was handed %d times to s%d, registered and matching during the whole dispatch", mi, n, si))
				}
			case overlaps(maybe[si], o.start, o.end):
				if n > 1 {
					out = append(out, fmt.Sprintf("c20.dispatch.more_than_once: message m%d was handed %d times to s%d", mi, n, si))
				}
			default:
				if n > 0 {
					out = append(out, fmt.Sprintf("c20.dispatch.delivered_to_unregistered: message m%d was handed to s%d which was not registered", mi, si))
				}
			}
		}
	}
	return out
}

var opNames = []struct {
	kind string
	arg  int
}{
	{"reg", 0}, {"reg", 1}, {"reg", 2}, {"unreg", 0}, {"unreg", 1}, {"unreg", 2}, {"disp", 0}, {"disp", 1}, {"disp", 2},
}

func opStr(i int) string { return fmt.Sprintf("%s(%d)", opNames[i].kind, opNames[i].arg) }

// runSequential enumerates all operation sequences up to length n.
func runSequential(rep *core.Report, n int) (seqs int, deliveries int) {
	idx := make([]int, n)
	total := 1
	for k := 0; k < n; k++ {
		total *= len(opNames)
	}
	outcomes := map[string]bool{}
	for c := 0; c < total; c++ {
		x := c
		for k := 0; k < n; k++ {
			idx[k] = x % len(opNames)
			x /= len(opNames)
		}
		f := newFixture()
		for _, o := range idx {
			f.op(opNames[o].kind, opNames[o].arg)
		}
		seqs++
		deliveries += len(f.deliveries)
		sig := ""
		for _, d := range f.deliveries {
			sig += fmt.Sprintf("%d>%d;", d.msg, d.sub)
		}
		outcomes[sig] = true
		for _, m := range f.judge() {
			var names []string
			for _, o := range idx {
				names = append(names, opStr(o))
			}
			rep.Violation(core.Violation{Key: keyOf(m) + ".sequential", Summary: fmt.Sprintf("after %v: %s", names, m),
				Case: map[string]interface{}{"part": "dispatch-seq", "ops": append([]int(nil), idx...)}})
		}
		if c%997 == 0 && rep.Expired() {
			break
		}
	}
	rep.Set("dispatch.sequential_distinct_outcomes", len(outcomes))
	return
}

func keyOf(msg string) string {
	if i := strings.Index(msg, ":"); i >= 0 {
		return msg[:i]
	}
	return msg
}

// concurrent patterns: per thread a list of indexes into opNames.
var concPatterns = []struct {
	Name    string
	Pre     []int // executed sequentially before the threads start
	Threads [][]int
}{
	{"disp_vs_unreg", []int{0, 1}, [][]int{{6}, {3}}},          // s0,s1 registered; dispatch m0 || unregister s0
	{"disp_vs_reg", []int{0}, [][]int{{6}, {1}}},               // dispatch m0 || register s1
	{"disp_disp_reg", []int{0}, [][]int{{6}, {7}, {1}}},        // two different messages || register
	{"disp_then_repeat", []int{0, 1}, [][]int{{6, 6}, {4, 1}}}, // repeat after handled || unregister+register s1
	{"reg_unreg_disp", []int{}, [][]int{{0, 3}, {6}, {1}}},     // register/unregister s0 || dispatch || register s1
	{"two_types", []int{0, 2}, [][]int{{6}, {8}, {5}}},         // GET_BLOCK and POSTTX dispatches || unregister s2
}

func newConc(pi int) func() vsched.Instance {
	p := concPatterns[pi]
	return func() vsched.Instance {
		f := newFixture()
		for _, o := range p.Pre {
			f.op(opNames[o].kind, opNames[o].arg)
		}
		var bodies []func()
		for _, ops := range p.Threads {
			ops := ops
			bodies = append(bodies, func() {
				for _, o := range ops {
					f.op(opNames[o].kind, opNames[o].arg)
				}
			})
		}
		check := func(o vsched.Outcome) []string {
			var out []string
			if o.Deadlock {
				return []string{"c20.dispatch.deadlock: " + strings.Join(o.Blocked, "; ")}
			}
			if o.Livelock {
				return []string{"c20.dispatch.livelock"}
			}
			for _, pn := range o.Panics {
				out = append(out, "c20.dispatch.panic: "+strings.SplitN(pn, "\n", 2)[0])
			}
			return append(out, f.judge()...)
		}
		return vsched.Instance{Bodies: bodies, Check: check}
	}
}

// runConcurrent explores all interleavings of each pattern within the bound.
func runConcurrent(rep *core.Report, bound int) (schedules int, complete bool) {
	complete = true
	for pi, p := range concPatterns {
		x := &vsched.Explorer{New: newConc(pi), Bound: bound, Workers: 4, Horizon: 2000, Stop: rep.Expired}
		x.Explore()
		schedules += x.Executions
		if x.Stopped {
			complete = false
		}
		msgs := make([]string, 0, len(x.Violations))
		for m := range x.Violations {
			msgs = append(msgs, m)
		}
		sort.Strings(msgs)
		for _, m := range msgs {
			rep.Violation(core.Violation{Key: keyOf(m) + ".concurrent." + p.Name, Summary: m,
				Case: map[string]interface{}{"part": "dispatch-conc", "pattern": pi, "schedule": x.Violations[m].Choices}})
		}
		rep.Sample(map[string]interface{}{"part": "dispatch-conc", "pattern": p.Name, "preemption_bound": bound, "schedules": x.Executions, "max_points": x.MaxPoints})
	}
	return
}

// RacePassBodies runs the concurrent patterns free-running (no scheduler); used
// by the separate -race pass.
func RacePassBodies(reps int) {
	for pi := range concPatterns {
		for r := 0; r < reps; r++ {
			in := newConc(pi)()
			var wg sync.WaitGroup
			for _, b := range in.Bodies {
				wg.Add(1)
				go func(b func()) { defer wg.Done(); b() }(b)
			}
			wg.Wait()
		}
	}
}
