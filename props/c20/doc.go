// Package c20 holds the check for property C20.
package c20
