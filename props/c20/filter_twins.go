package c20

// Scenario "twin" of the filter matrix: message identity (see identity.go).
//
// For every message A of the matrix and every twin B of it
//
//	payload only          : B = A with another payload
//	type only             : B = A with every other message type of the matrix
//	chain name only       : B = A with every other value of the Bcname alphabet
//	sender only           : B = A with every other value of the From alphabet
//	log id only           : B = A with another log id
//	boundary moved        : every other way to cut Bcname+From into (Bcname, From); the
//	                        From | log id boundary one character to either side; the tail
//	                        of the type's enum name moved into / out of Bcname where one
//	                        matrix type's name is a prefix of another's
//
// one dispatcher with every subscriber of the matrix registered is handed, inside
// the de-duplication window, first, second, then an equal copy of the first and of
// the second that came over the wire, with (first, second) = (A, B) and = (B, A).
// Reference: A and B are DIFFERENT messages (the header tuple or the payload
// differs), each is handed exactly once to every subscriber whose type and filters
// match ITS header and to no other; the copies are repeats, handed to nobody.

import (
	"fmt"
	"time"

	"github.com/golang/protobuf/proto"

	pb "github.com/xuperchain/xupercore/protos"

	"verif/core"
)

func matrixIdent(mx *fmatrix, mi int) ident {
	m := mx.Msgs[mi]
	return ident{typ: m.Typ, bc: m.Bc, fr: m.Fr, logid: flogid(mi)}
}

func (a ident) fmsg(wire bool) fmsg { return fmsg{Typ: a.typ, Fr: a.fr, Bc: a.bc, Wire: wire} }

// matrixTwins enumerates the twins of matrix message mi (distinct, none equal to it).
func matrixTwins(mx *fmatrix, mi int) []ident {
	a := matrixIdent(mx, mi)
	seen := map[ident]bool{a: true}
	var out []ident
	add := func(b ident) {
		if !seen[b] {
			seen[b] = true
			out = append(out, b)
		}
	}
	b := a
	b.payload = "is block 2222 on your trunk?"
	add(b)
	types := append(append([]pb.XuperMessage_MessageType(nil), mx.regTypes...), mx.unregTypes...)
	for _, t := range types {
		b = a
		b.typ = t
		add(b)
	}
	for _, v := range mx.bcs {
		b = a
		b.bc = v
		add(b)
	}
	for _, v := range mx.froms {
		b = a
		b.fr = v
		add(b)
	}
	b = a
	b.logid += "x"
	add(b)
	cat := a.bc + a.fr
	for cut := 0; cut <= len(cat); cut++ {
		b = a
		b.bc, b.fr = cat[:cut], cat[cut:]
		add(b)
	}
	add(moveBoundary(a, 2, +1))
	add(moveBoundary(a, 2, -1))
	for _, t := range typePrefixTwins(a, types) {
		add(t)
	}
	return out
}

func overWire(m *pb.XuperMessage) (*pb.XuperMessage, error) {
	raw, err := proto.Marshal(m)
	if err != nil {
		return nil, err
	}
	out := &pb.XuperMessage{}
	if err := proto.Unmarshal(raw, out); err != nil {
		return nil, err
	}
	return out, nil
}

func twinCase(tier core.Tier, si, mi, ti, order int) map[string]interface{} {
	c := fcase("twin", tier, si, mi)
	c["twin"], c["order"] = ti, order
	return c
}

// scenarioTwin runs (A, B) in the given order (0: A first, 1: B first) on a fresh dispatcher.
func scenarioTwin(mx *fmatrix, tier core.Tier, mi, ti, order int, st *fstats) []fviol {
	a := matrixIdent(mx, mi)
	twins := matrixTwins(mx, mi)
	if ti < 0 || ti >= len(twins) {
		return []fviol{{Key: "c20.filter.harness", Summary: fmt.Sprintf("message %d has no twin %d", mi, ti), Case: twinCase(tier, -1, mi, ti, order)}}
	}
	ids := [2]ident{a, twins[ti]}
	if order == 1 {
		ids[0], ids[1] = ids[1], ids[0]
	}
	rel := identRelation(ids[0], ids[1])
	wire := mx.Msgs[mi].Wire
	// objects: 0 first, 1 second, 2 copy of first, 3 copy of second
	var objs [4]*pb.XuperMessage
	for k := 0; k < 2; k++ {
		m := ids[k].build()
		cp, err := overWire(m)
		if err == nil && wire {
			m, err = overWire(m)
		}
		if err != nil {
			return []fviol{{Key: "c20.filter.harness", Summary: err.Error(), Case: twinCase(tier, -1, mi, ti, order)}}
		}
		objs[k], objs[k+2] = m, cp
	}
	r := newRig(mx)
	all := allSubs(mx)
	if err := r.registerAll(all); err != nil {
		return []fviol{{Key: "c20.filter.register_refused", Summary: err.Error(), Case: twinCase(tier, -1, mi, ti, order)}}
	}
	r.ptr = map[*pb.XuperMessage]int{}
	for k, o := range objs {
		r.ptr[o] = k
	}
	t0 := time.Now()
	for k, o := range objs {
		if k < 2 {
			st.dispatches++
		} else {
			st.repeats++
		}
		if err := r.d.Dispatch(o, recStream{}); err != nil && k < 2 {
			st.dispatchErr++
		}
	}
	el := time.Since(t0)
	if el > st.elapsedMax {
		st.elapsedMax = el
	}
	if el >= 1500*time.Millisecond {
		return nil // the window may have elapsed: not judged (counted in elapsedMax)
	}
	st.class("twin:" + rel)
	var out []fviol
	names := [2]string{"first", "second"}
	for _, si := range all {
		s := mx.Subs[si]
		for k := 0; k < 2; k++ {
			m := ids[k].fmsg(wire)
			n, cpn := r.count(si, k), r.count(si, k+2)
			want := 0
			if refDeliver(s, m) {
				want = 1
			}
			st.pairJudgements += 2
			st.deliveries += n
			what := fmt.Sprintf("scenario twin (%s): dispatched %s %s, then %s, then a copy of each; %s", rel, ids[0], wireName(wire), ids[1], s)
			switch {
			case n > 0 && want == 0:
				out = append(out, fviol{Key: "c20.filter.dispatch.delivered_to_non_matching." + rejectClass(s, m),
					Summary: fmt.Sprintf("%s was handed the %s one %d time(s), the reference says never", what, names[k], n), Case: twinCase(tier, si, mi, ti, order)})
			case n == 0 && want == 1 && k == 1:
				out = append(out, fviol{Key: "c20.dedup.distinct_message_dropped_as_repeat." + rel,
					Summary: fmt.Sprintf("%s (registered, type and filters match) was never handed the second one: a DIFFERENT message (reference: header tuple and payload) handled just before made it a repeat", what), Case: twinCase(tier, si, mi, ti, order)})
			case n != want:
				out = append(out, fviol{Key: "c20.filter.twin.not_exactly_once." + acceptClass(s, m),
					Summary: fmt.Sprintf("%s (registered, type and filters match) was handed the %s one %d time(s), want exactly once", what, names[k], n), Case: twinCase(tier, si, mi, ti, order)})
			}
			if cpn > 0 {
				out = append(out, fviol{Key: "c20.filter.dispatch.repeat_delivered",
					Summary: fmt.Sprintf("%s was handed the equal copy of the %s one %d time(s): a repeat inside the de-duplication window", what, names[k], cpn), Case: twinCase(tier, si, mi, ti, order)})
			}
		}
	}
	return out
}

func wireName(w bool) string {
	if w {
		return "(wire form)"
	}
	return "(as built)"
}

// scenarioTwinsOf runs every twin of message mi in both orders; returns the number of scenarios.
func scenarioTwinsOf(mx *fmatrix, tier core.Tier, mi int, st *fstats) (int, []fviol) {
	var out []fviol
	n := len(matrixTwins(mx, mi))
	for ti := 0; ti < n; ti++ {
		for order := 0; order < 2; order++ {
			out = append(out, scenarioTwin(mx, tier, mi, ti, order, st)...)
		}
	}
	return 2 * n, out
}
