package c20

// Filter matrix of the dispatcher half of C20: "... to every subscriber
// registered for its type whose chain and sender filters match AND TO NO OTHER".
//
// Enumerated completely, in index order:
//
//	subscribers = subscriber types x sender filter x chain filter, where a filter
//	              is {not given, given as "", given as one of the filter values}
//	messages    = message types (with and without registered subscribers) x
//	              header From x header Bcname; the header alphabets contain the
//	              empty string, every filter value, a proper prefix and an
//	              extension of the first filter value (thorough: more boundary
//	              values) x form (as built by NewMessage / after the envelope's
//	              wire round trip)
//
// Every (subscriber, message) pair is judged
//
//	(1) through the real Subscriber.Match,
//	(2) through the real Dispatch, scenario "all":    every subscriber registered on one dispatcher,
//	(3) through the real Dispatch, scenario "single": that subscriber alone on a dispatcher,
//	(4) through the real Dispatch, scenario "shared": every subscriber registered, every message
//	    of the matrix dispatched through the SAME dispatcher one after the other,
//
// each dispatch followed by a repeat inside the de-duplication window (the same
// object, or an equal copy that came over the wire), against the reference
// predicate below: a filter that is not given or empty lets everything through,
// a given filter lets through exactly the messages whose header field EQUALS it;
// the subscriber is handed the message exactly once if its type is the message's
// type and both filters pass, not at all otherwise; a repeat is handed to nobody.

import (
	"encoding/json"
	"fmt"
	"runtime"
	"sort"
	"strings"
	"sync"
	"sync/atomic"
	"time"

	"github.com/golang/protobuf/proto"

	xconf "github.com/xuperchain/xupercore/kernel/common/xconfig"
	xctx "github.com/xuperchain/xupercore/kernel/common/xcontext"
	nctx "github.com/xuperchain/xupercore/kernel/network/context"
	"github.com/xuperchain/xupercore/kernel/network/p2p"
	"github.com/xuperchain/xupercore/lib/timer"
	pb "github.com/xuperchain/xupercore/protos"

	"verif/core"
	"verif/world"
)

// fval is one value of a filter domain: not given at all, or given as S.
type fval struct {
	Set bool
	S   string
}

func (f fval) String() string {
	if !f.Set {
		return "-"
	}
	return fmt.Sprintf("%q", f.S)
}

type fsub struct {
	Typ    pb.XuperMessage_MessageType
	Fr, Bc fval
}

func (s fsub) String() string {
	return fmt.Sprintf("sub[%s from=%s bc=%s]", s.Typ, s.Fr, s.Bc)
}

type fmsg struct {
	Typ    pb.XuperMessage_MessageType
	Fr, Bc string
	Wire   bool // the message object is the one decoded from the marshalled envelope
}

func (m fmsg) String() string {
	form := "built"
	if m.Wire {
		form = "wire"
	}
	return fmt.Sprintf("msg[%s from=%q bc=%q %s]", m.Typ, m.Fr, m.Bc, form)
}

// fmatrix is the enumerated space of one tier.
type fmatrix struct {
	Subs []fsub
	Msgs []fmsg
	// message types that have / do not have a subscriber in the matrix
	regTypes, unregTypes []pb.XuperMessage_MessageType
	// header alphabets
	froms, bcs []string
}

const (
	fP1 = "peer1"
	fP2 = "peer2"
	fC1 = "xuper"
	fC2 = "hello"
)

func buildMatrix(tier core.Tier) *fmatrix {
	mx := &fmatrix{
		// a request type and a response type (the p2pv2 response observers are the
		// production users of the sender filter)
		regTypes:   []pb.XuperMessage_MessageType{pb.XuperMessage_GET_BLOCK, pb.XuperMessage_GET_BLOCK_RES},
		unregTypes: []pb.XuperMessage_MessageType{pb.XuperMessage_POSTTX, pb.XuperMessage_MSG_TYPE_NONE},
	}
	senderFilters := []fval{{}, {true, ""}, {true, fP1}, {true, fP2}}
	chainFilters := []fval{{}, {true, ""}, {true, fC1}, {true, fC2}}
	// header alphabets: empty, every filter value, proper prefix and extension of the first
	froms := []string{"", fP1, fP2, fP1[:len(fP1)-1], fP1 + "x"}
	bcs := []string{"", fC1, fC2, fC1[:len(fC1)-1], fC1 + "x"}
	if tier == core.Thorough {
		// filters that are themselves a prefix / an extension of another filter value
		senderFilters = append(senderFilters, fval{true, fP1[:len(fP1)-1]}, fval{true, fP1 + "x"})
		chainFilters = append(chainFilters, fval{true, fC1[:len(fC1)-1]}, fval{true, fC1 + "x"})
		// more boundary values of the header fields: one blank, other case, a
		// trailing NUL, a proper suffix, the OTHER dimension's filter value
		froms = append(froms, " ", strings.ToUpper(fP1), fP1+"\x00", fP1[1:], fC1)
		bcs = append(bcs, " ", strings.ToUpper(fC1), fC1+"\x00", fC1[1:], fP1)
		mx.regTypes = append(mx.regTypes, pb.XuperMessage_SENDBLOCK)
	}
	mx.froms, mx.bcs = froms, bcs
	for _, t := range mx.regTypes {
		for _, fr := range senderFilters {
			for _, bc := range chainFilters {
				mx.Subs = append(mx.Subs, fsub{Typ: t, Fr: fr, Bc: bc})
			}
		}
	}
	for _, t := range append(append([]pb.XuperMessage_MessageType(nil), mx.regTypes...), mx.unregTypes...) {
		for _, fr := range froms {
			for _, bc := range bcs {
				for _, wire := range []bool{false, true} {
					mx.Msgs = append(mx.Msgs, fmsg{Typ: t, Fr: fr, Bc: bc, Wire: wire})
				}
			}
		}
	}
	return mx
}

// ---- the reference predicate ----

func refPass(f fval, value string) bool { return !f.Set || f.S == "" || f.S == value }

func refMatch(s fsub, m fmsg) bool { return refPass(s.Fr, m.Fr) && refPass(s.Bc, m.Bc) }

func refDeliver(s fsub, m fmsg) bool { return s.Typ == m.Typ && refMatch(s, m) }

// relation names how a header value that a filter must reject relates to the
// filter value; it is what distinguishes one class of wrong acceptance from another.
func relation(filter, value string) string {
	switch {
	case value == "":
		return "empty"
	case strings.HasPrefix(filter, value):
		return "prefix"
	case strings.HasPrefix(value, filter):
		return "extension"
	case strings.HasSuffix(filter, value):
		return "suffix"
	case strings.EqualFold(filter, value):
		return "case"
	case strings.TrimSpace(value) == "":
		return "blank"
	}
	return "other"
}

// rejectClass names the reference's reasons to keep m away from s:
// "type", "sender_<relation>", "chain_<relation>", joined by "+"; "" if the reference delivers.
func rejectClass(s fsub, m fmsg) string {
	var parts []string
	if s.Typ != m.Typ {
		parts = append(parts, "type")
	}
	parts = append(parts, filterRejectClass(s, m)...)
	return strings.Join(parts, "+")
}

func filterRejectClass(s fsub, m fmsg) []string {
	var parts []string
	if !refPass(s.Fr, m.Fr) {
		parts = append(parts, "sender_"+relation(s.Fr.S, m.Fr))
	}
	if !refPass(s.Bc, m.Bc) {
		parts = append(parts, "chain_"+relation(s.Bc.S, m.Bc))
	}
	return parts
}

// acceptClass names why the reference lets m through s's filters (vacuity guard).
func acceptClass(s fsub, m fmsg) string {
	one := func(f fval, v string) string {
		switch {
		case !f.Set:
			return "nofilter"
		case f.S == "":
			return "emptyfilter"
		}
		return "equal"
	}
	return "sender_" + one(s.Fr, m.Fr) + "+chain_" + one(s.Bc, m.Bc)
}

// ---- the rig: real dispatcher, real subscribers with recording handlers ----

type frig struct {
	mx   *fmatrix
	ctx  *nctx.NetCtx
	d    p2p.Dispatcher
	subs []p2p.Subscriber // index = index into mx.Subs; nil if not created
	mu   sync.Mutex
	got  map[[2]int]int // (subscriber, message index by log id) -> handler calls
	// scenario twin (messages share log ids): message object -> index used in got
	ptr map[*pb.XuperMessage]int
}

func flogid(mi int) string { return fmt.Sprintf("fm-%05d", mi) }

func newRig(mx *fmatrix) *frig {
	world.Init()
	r := &frig{mx: mx, got: map[[2]int]int{}, subs: make([]p2p.Subscriber, len(mx.Subs))}
	r.ctx = &nctx.NetCtx{EnvCfg: xconf.GetDefEnvConf()}
	r.ctx.XLog = world.NopLogger{}
	r.ctx.Timer = timer.NewXTimer()
	r.d = p2p.NewDispatcher(r.ctx)
	return r
}

// sub creates (once) the real subscriber si.
func (r *frig) sub(si int) p2p.Subscriber {
	if r.subs[si] != nil {
		return r.subs[si]
	}
	s := r.mx.Subs[si]
	var opts []p2p.SubscriberOption
	if s.Fr.Set {
		opts = append(opts, p2p.WithFilterFrom(s.Fr.S))
	}
	if s.Bc.Set {
		opts = append(opts, p2p.WithFilterBCName(s.Bc.S))
	}
	h := p2p.HandleFunc(func(c xctx.XContext, m *pb.XuperMessage) (*pb.XuperMessage, error) {
		mi := -1
		if k, ok := r.ptr[m]; ok {
			mi = k
		} else {
			fmt.Sscanf(m.GetHeader().GetLogid(), "fm-%d", &mi)
		}
		r.mu.Lock()
		r.got[[2]int{si, mi}]++
		r.mu.Unlock()
		return p2p.NewMessage(p2p.GetRespMessageType(m.GetHeader().GetType()), nil), nil
	})
	r.subs[si] = p2p.NewSubscriber(r.ctx, s.Typ, h, opts...)
	return r.subs[si]
}

func (r *frig) count(si, mi int) int {
	r.mu.Lock()
	defer r.mu.Unlock()
	return r.got[[2]int{si, mi}]
}

// buildMsg makes the real message mi: NewMessage with the options, From filled in
// the way the transports do on the sending side; the wire form is what
// proto.Unmarshal gives the receiver from the marshalled envelope. The second
// result is an equal copy that came over the wire (used as the repeat).
func buildMsg(mx *fmatrix, mi int) (msg, copyOverWire *pb.XuperMessage, err error) {
	m := mx.Msgs[mi]
	built := p2p.NewMessage(m.Typ, &pb.XuperMessage{}, p2p.WithBCName(m.Bc), p2p.WithLogId(flogid(mi)))
	built.Header.From = m.Fr
	decode := func() (*pb.XuperMessage, error) {
		raw, err := proto.Marshal(built)
		if err != nil {
			return nil, err
		}
		out := &pb.XuperMessage{}
		if err := proto.Unmarshal(raw, out); err != nil {
			return nil, err
		}
		return out, nil
	}
	cp, err := decode()
	if err != nil {
		return nil, nil, err
	}
	if !m.Wire {
		return built, cp, nil
	}
	first, err := decode()
	if err != nil {
		return nil, nil, err
	}
	return first, cp, nil
}

// fviol is one deviation from the reference.
type fviol struct {
	Key, Summary string
	Case         map[string]interface{}
}

type fstats struct {
	matchEvals, matchTrue, matchFalse       int
	dispatches, dispatchErr, repeats        int
	pairJudgements, deliveries, handlerHits int
	classes                                 map[string]int // reference class of every judged pair
	elapsedMax                              time.Duration
}

func (a *fstats) add(b *fstats) {
	a.matchEvals += b.matchEvals
	a.matchTrue += b.matchTrue
	a.matchFalse += b.matchFalse
	a.dispatches += b.dispatches
	a.dispatchErr += b.dispatchErr
	a.repeats += b.repeats
	a.pairJudgements += b.pairJudgements
	a.deliveries += b.deliveries
	a.handlerHits += b.handlerHits
	if a.classes == nil {
		a.classes = map[string]int{}
	}
	for k, v := range b.classes {
		a.classes[k] += v
	}
	if b.elapsedMax > a.elapsedMax {
		a.elapsedMax = b.elapsedMax
	}
}

func (a *fstats) class(c string) {
	if a.classes == nil {
		a.classes = map[string]int{}
	}
	a.classes[c]++
}

func fcase(scn string, tier core.Tier, si, mi int) map[string]interface{} {
	return map[string]interface{}{"part": "dispatch-filter", "scenario": scn, "tier": string(tier), "sub": si, "msg": mi}
}

// judgeMatch compares the real Match of subscriber si on message mi with the reference.
func judgeMatch(mx *fmatrix, tier core.Tier, r *frig, si, mi int, msg *pb.XuperMessage, st *fstats) []fviol {
	s, m := mx.Subs[si], mx.Msgs[mi]
	got, want := r.sub(si).Match(msg), refMatch(s, m)
	st.matchEvals++
	if got {
		st.matchTrue++
	} else {
		st.matchFalse++
	}
	if got == want {
		return nil
	}
	if got {
		cl := strings.Join(filterRejectClass(s, m), "+")
		return []fviol{{Key: "c20.filter.match.accepts_non_matching." + cl,
			Summary: fmt.Sprintf("%s.Match(%s) = true, the reference predicate (filter not given or empty -> any, else equality) says false", s, m),
			Case:    fcase("match", tier, si, mi)}}
	}
	return []fviol{{Key: "c20.filter.match.rejects_matching." + acceptClass(s, m),
		Summary: fmt.Sprintf("%s.Match(%s) = false, the reference predicate says true", s, m),
		Case:    fcase("match", tier, si, mi)}}
}

// judgeCounts compares the handler calls of the registered subscribers for
// message mi with the reference after the first dispatch (want exactly one per
// matching subscriber) or after the repeat (still exactly that).
func judgeCounts(mx *fmatrix, tier core.Tier, r *frig, scn string, registered []int, mi int, afterRepeat bool, st *fstats) []fviol {
	var out []fviol
	m := mx.Msgs[mi]
	for _, si := range registered {
		s := mx.Subs[si]
		n := r.count(si, mi)
		want := 0
		if refDeliver(s, m) {
			want = 1
		}
		st.pairJudgements++
		if !afterRepeat {
			st.deliveries += n
			if want == 1 {
				st.class("deliver:" + acceptClass(s, m))
			} else {
				st.class("withhold:" + rejectClass(s, m))
			}
		}
		if n == want {
			continue
		}
		when := "the first dispatch"
		if afterRepeat {
			when = "a repeat inside the de-duplication window"
		}
		switch {
		case want == 0:
			out = append(out, fviol{Key: "c20.filter.dispatch.delivered_to_non_matching." + rejectClass(s, m),
				Summary: fmt.Sprintf("scenario %s: after %s of %s, %s had been handed it %d time(s), the reference says never", scn, when, m, s, n),
				Case:    fcase(scn, tier, si, mi)})
		case afterRepeat && n > 1:
			out = append(out, fviol{Key: "c20.filter.dispatch.repeat_delivered",
				Summary: fmt.Sprintf("scenario %s: after %s of %s, %s had been handed it %d times, want exactly once", scn, when, m, s, n),
				Case:    fcase(scn, tier, si, mi)})
		default:
			out = append(out, fviol{Key: "c20.filter.dispatch.not_exactly_once." + acceptClass(s, m),
				Summary: fmt.Sprintf("scenario %s: after %s of %s, %s (registered, type and filters match) had been handed it %d time(s), want exactly once", scn, when, m, s, n),
				Case:    fcase(scn, tier, si, mi)})
		}
	}
	return out
}

// dispatchTwice dispatches message mi and then its repeat, judging after each.
func dispatchTwice(mx *fmatrix, tier core.Tier, r *frig, scn string, registered []int, mi int, st *fstats) []fviol {
	msg, cp, err := buildMsg(mx, mi)
	if err != nil {
		return []fviol{{Key: "c20.filter.harness", Summary: err.Error(), Case: fcase(scn, tier, -1, mi)}}
	}
	t0 := time.Now()
	st.dispatches++
	if err := r.d.Dispatch(msg, recStream{}); err != nil {
		st.dispatchErr++
	}
	out := judgeCounts(mx, tier, r, scn, registered, mi, false, st)
	// the repeat: an equal copy from the wire for a built message, the same object for a wire message
	rep := msg
	if !mx.Msgs[mi].Wire {
		rep = cp
	}
	st.repeats++
	r.d.Dispatch(rep, recStream{})
	el := time.Since(t0)
	if el > st.elapsedMax {
		st.elapsedMax = el
	}
	if el < 1500*time.Millisecond { // else the window may have elapsed: not judged (counted in elapsedMax)
		out = append(out, judgeCounts(mx, tier, r, scn, registered, mi, true, st)...)
	}
	return out
}

func (r *frig) registerAll(subs []int) error {
	for _, si := range subs {
		if err := r.d.Register(r.sub(si)); err != nil {
			return fmt.Errorf("Register(%s): %v", r.mx.Subs[si], err)
		}
	}
	return nil
}

func allSubs(mx *fmatrix) []int {
	out := make([]int, len(mx.Subs))
	for i := range out {
		out[i] = i
	}
	return out
}

// scenario "match" + "all" for one message.
func scenarioAll(mx *fmatrix, tier core.Tier, mi int, st *fstats) []fviol {
	r := newRig(mx)
	all := allSubs(mx)
	var out []fviol
	msg, _, err := buildMsg(mx, mi)
	if err != nil {
		return []fviol{{Key: "c20.filter.harness", Summary: err.Error(), Case: fcase("all", tier, -1, mi)}}
	}
	for _, si := range all {
		out = append(out, judgeMatch(mx, tier, r, si, mi, msg, st)...)
	}
	if err := r.registerAll(all); err != nil {
		return append(out, fviol{Key: "c20.filter.register_refused", Summary: err.Error(), Case: fcase("all", tier, -1, mi)})
	}
	return append(out, dispatchTwice(mx, tier, r, "all", all, mi, st)...)
}

// scenario "single": subscriber si alone.
func scenarioSingle(mx *fmatrix, tier core.Tier, si, mi int, st *fstats) []fviol {
	r := newRig(mx)
	if err := r.registerAll([]int{si}); err != nil {
		return []fviol{{Key: "c20.filter.register_refused", Summary: err.Error(), Case: fcase("single", tier, si, mi)}}
	}
	return dispatchTwice(mx, tier, r, "single", []int{si}, mi, st)
}

// scenario "shared": one dispatcher, every subscriber, messages [0, upto] one after the other
// (each with its repeat); judged for every message dispatched so far after every step.
func scenarioShared(mx *fmatrix, tier core.Tier, upto int, st *fstats) []fviol {
	r := newRig(mx)
	all := allSubs(mx)
	if err := r.registerAll(all); err != nil {
		return []fviol{{Key: "c20.filter.register_refused", Summary: err.Error(), Case: fcase("shared", tier, -1, upto)}}
	}
	var out []fviol
	for mi := 0; mi <= upto; mi++ {
		out = append(out, dispatchTwice(mx, tier, r, "shared", all, mi, st)...)
	}
	// nothing dispatched later may have been credited to an earlier message: judge them all again
	var st2 fstats
	for mi := 0; mi <= upto; mi++ {
		out = append(out, judgeCounts(mx, tier, r, "shared", all, mi, true, &st2)...)
	}
	st.pairJudgements += st2.pairJudgements
	return out
}

// runFilters enumerates the matrix.
func runFilters(rep *core.Report, tier core.Tier) {
	mx := buildMatrix(tier)
	nm, ns := len(mx.Msgs), len(mx.Subs)
	type res struct {
		st    fstats
		viol  []fviol
		twins int
		done  bool
	}
	results := make([]res, nm)
	nw := runtime.NumCPU()
	if nw > 16 {
		nw = 16
	}
	var next int64 = -1
	var wg sync.WaitGroup
	for w := 0; w < nw; w++ {
		wg.Add(1)
		go func() {
			defer wg.Done()
			for {
				mi := int(atomic.AddInt64(&next, 1))
				if mi >= nm || rep.Expired() {
					return
				}
				r := &results[mi]
				r.viol = append(r.viol, scenarioAll(mx, tier, mi, &r.st)...)
				for si := 0; si < ns; si++ {
					r.viol = append(r.viol, scenarioSingle(mx, tier, si, mi, &r.st)...)
				}
				tn, tv := scenarioTwinsOf(mx, tier, mi, &r.st)
				r.twins, r.viol = tn, append(r.viol, tv...)
				r.done = true
			}
		}()
	}
	wg.Wait()
	var tot fstats
	complete := true
	twinScenarios := 0
	for mi := range results {
		if !results[mi].done {
			complete = false
			continue
		}
		tot.add(&results[mi].st)
		twinScenarios += results[mi].twins
		for _, v := range results[mi].viol {
			rep.Violation(core.Violation{Key: v.Key, Summary: v.Summary, Case: v.Case})
		}
	}
	var shared fstats
	if complete {
		for _, v := range scenarioShared(mx, tier, nm-1, &shared) {
			// replay needs only the prefix up to the message concerned
			rep.Violation(core.Violation{Key: v.Key, Summary: v.Summary, Case: v.Case})
		}
		tot.add(&shared)
	}
	if !complete {
		rep.Set("exhaustive", false)
	}

	// coverage
	classNames := make([]string, 0, len(tot.classes))
	deliverClasses, withholdClasses := 0, 0
	twinClasses := map[string]int{}
	for k := range tot.classes {
		if strings.HasPrefix(k, "twin:") {
			twinClasses[strings.TrimPrefix(k, "twin:")] = tot.classes[k]
			continue
		}
		classNames = append(classNames, k)
		if strings.HasPrefix(k, "deliver:") {
			deliverClasses++
		} else {
			withholdClasses++
		}
	}
	sort.Strings(classNames)
	classes := map[string]int{}
	for _, k := range classNames {
		classes[k] = tot.classes[k]
	}
	rep.Set("dispatch.filter.subscribers", ns)
	rep.Set("dispatch.filter.messages", nm)
	rep.Set("dispatch.filter.message_types", map[string]interface{}{"with_subscribers": typeNames(mx.regTypes), "without_subscribers": typeNames(mx.unregTypes)})
	rep.Set("dispatch.filter.match_evaluations", tot.matchEvals)
	rep.Set("dispatch.filter.match_true", tot.matchTrue)
	rep.Set("dispatch.filter.match_false", tot.matchFalse)
	rep.Set("dispatch.filter.dispatchers", nm*(1+ns)+1+twinScenarios)
	rep.Set("dispatch.filter.twin_scenarios", twinScenarios)
	rep.Set("dispatch.filter.twin_scenarios_by_relation", twinClasses)
	rep.Set("dispatch.filter.twin_rule", "message identity dimension: for every message A of the matrix and every twin B of it (another payload; every other type of the matrix; every other value of the Bcname / From alphabet; another log id; every other cut of Bcname+From, the From | log id boundary one character to either side, the tail of a type's enum name moved into / out of Bcname) a dispatcher with every subscriber registered is handed first, second, a wire copy of the first, a wire copy of the second inside the de-duplication window, for (first, second) = (A, B) and (B, A). Reference: same message iff header tuple (type, chain, sender, log id) AND payload are equal, so A and B are two messages, each handed exactly once to every subscriber matching ITS header, the copies to nobody. twin_scenarios_by_relation counts the judged scenarios per relation of the pair (distinct relations are added to distinct_nontrivial)")
	rep.Set("dispatch.filter.dispatches", tot.dispatches)
	rep.Set("dispatch.filter.dispatches_refused", tot.dispatchErr)
	rep.Set("dispatch.filter.repeats_inside_window", tot.repeats)
	rep.Set("dispatch.filter.pair_judgements", tot.pairJudgements)
	rep.Set("dispatch.filter.deliveries_observed", tot.deliveries)
	rep.Set("dispatch.filter.reference_classes", classes)
	rep.Set("dispatch.filter.reference_classes_deliver", deliverClasses)
	rep.Set("dispatch.filter.reference_classes_withhold", withholdClasses)
	rep.Set("dispatch.filter.slowest_dispatch_plus_repeat_ms", int(tot.elapsedMax/time.Millisecond))
	rep.Set("dispatch.filter.rule", "subscribers = subscriber type x sender filter x chain filter (filter: not given | given as \"\" | given as a value), messages = message type (with / without registered subscribers) x header From x header Bcname x form (built | decoded from the marshalled envelope); header alphabets = empty string, every filter value, proper prefix and extension of the first filter value (thorough: also blank, other case, trailing NUL, proper suffix, the other dimension's value; filters that are a prefix / extension of another filter). Every (subscriber, message) pair is judged through Subscriber.Match and through Dispatch in the scenarios all (every subscriber registered), single (that subscriber alone), shared (one dispatcher for all messages), each dispatch followed by a repeat inside the window, against the reference predicate (filter not given or empty -> any, else equality; same type; exactly once, repeat never). A pair is non-trivial when at least one filter is given with a non-empty value; reference_classes counts the judged pairs per reason the reference delivers / withholds (distinct classes are added to distinct_nontrivial)")
	rep.Add("evaluations", tot.matchEvals+tot.pairJudgements)
	rep.Add("distinct_nontrivial", len(classes)+len(twinClasses))
	rep.Add("states", nm*(1+ns)+1+twinScenarios)
	rep.Add("transitions", tot.dispatches+tot.repeats)
	rep.Add("traces_validated_against_impl", nm*(1+ns)+1+twinScenarios)
	rep.Sample(map[string]interface{}{"part": "dispatch-filter", "first_subscriber": mx.Subs[0].String(), "last_subscriber": mx.Subs[ns-1].String(),
		"first_message": mx.Msgs[0].String(), "last_message": mx.Msgs[nm-1].String(), "deliveries": tot.deliveries})
}

func typeNames(ts []pb.XuperMessage_MessageType) []string {
	var out []string
	for _, t := range ts {
		out = append(out, t.String())
	}
	return out
}

// replayFilter re-executes one case of the matrix.
func replayFilter(c json.RawMessage) (bool, string, error) {
	var cs struct {
		Scenario string `json:"scenario"`
		Tier     string `json:"tier"`
		Sub      int    `json:"sub"`
		Msg      int    `json:"msg"`
		Twin     int    `json:"twin"`
		Order    int    `json:"order"`
	}
	if err := json.Unmarshal(c, &cs); err != nil {
		return false, "", err
	}
	tier := core.Tier(cs.Tier)
	mx := buildMatrix(tier)
	if cs.Msg < 0 || cs.Msg >= len(mx.Msgs) || cs.Sub >= len(mx.Subs) {
		return false, "", fmt.Errorf("case out of range of the %s matrix", cs.Tier)
	}
	var st fstats
	var v []fviol
	switch cs.Scenario {
	case "match":
		if cs.Sub < 0 {
			return false, "", fmt.Errorf("match case without subscriber")
		}
		msg, _, err := buildMsg(mx, cs.Msg)
		if err != nil {
			return false, "", err
		}
		v = judgeMatch(mx, tier, newRig(mx), cs.Sub, cs.Msg, msg, &st)
	case "all":
		v = scenarioAll(mx, tier, cs.Msg, &st)
	case "single":
		if cs.Sub < 0 {
			return false, "", fmt.Errorf("single case without subscriber")
		}
		v = scenarioSingle(mx, tier, cs.Sub, cs.Msg, &st)
	case "shared":
		v = scenarioShared(mx, tier, cs.Msg, &st)
	case "twin":
		v = scenarioTwin(mx, tier, cs.Msg, cs.Twin, cs.Order, &st)
	default:
		return false, "", fmt.Errorf("unknown filter scenario %q", cs.Scenario)
	}
	if len(v) > 0 {
		return true, fmt.Sprintf("%s: %s (%d deviations in this case)", v[0].Key, v[0].Summary, len(v)), nil
	}
	return false, "filter case replayed without deviation from the reference", nil
}
