package c20

// Message identity for the de-duplication clause of C20: "hands each accepted
// message exactly once ..., drops repeats of a handled message within the
// de-duplication window".
//
// Reference (deliberately boring): two messages are THE SAME message iff their
// header tuple (type, chain name, sender, log id) AND their payload are equal;
// everything else is two messages, each of which is owed its own delivery. The
// log id is not unique per message in this repository (the miner stamps every
// message of a round with the round's log id, the xuperos net client uses the
// chain name, responses re-use the request's), so equality of the header alone
// decides nothing.
//
// The enumerations of dispatch.go (operation sequences, schedules) and of
// filters.go (filter matrix) take, next to their messages, TWINS of them: a twin
// agrees with its original in every component but one (payload, type, chain
// name, sender, log id), or is an equal copy in a separate object (the only twin
// that IS a repeat), or has the boundary between two adjacent header fields
// moved (the header tuples differ, the plain concatenation of their fields does
// not).

import (
	"fmt"
	"strings"

	"github.com/xuperchain/xupercore/kernel/network/p2p"
	pb "github.com/xuperchain/xupercore/protos"
)

// ident is the identity of a message under the reference.
type ident struct {
	typ                    pb.XuperMessage_MessageType
	bc, fr, logid, payload string
}

func (a ident) String() string {
	return fmt.Sprintf("[%s bc=%q from=%q logid=%q payload=%q]", a.typ, a.bc, a.fr, a.logid, a.payload)
}

func (a ident) endpoint() endpoint {
	return endpoint{typ: a.typ, bc: a.bc, fr: a.fr, logid: a.logid, payload: a.payload}
}

// build makes the real message the way the repository's callers do: NewMessage
// with the chain name and an explicit log id, From filled in by the transport.
func (a ident) build() *pb.XuperMessage {
	body := &pb.XuperMessage{}
	if a.payload != "" {
		body.Data = &pb.XuperMessage_MessageData{MsgInfo: []byte(a.payload)}
	}
	msg := p2p.NewMessage(a.typ, body, p2p.WithBCName(a.bc), p2p.WithLogId(a.logid))
	msg.Header.From = a.fr
	return msg
}

// ident of message mi of a population ("" log id = "log-<index>").
func (sp *spec) ident(mi int) ident {
	m := sp.msgs[mi]
	id := ident{typ: m.typ, bc: m.bc, fr: m.fr, logid: m.logid, payload: m.payload}
	if id.logid == "" {
		id.logid = fmt.Sprintf("log-%d", mi)
	}
	return id
}

// same is the reference's "the same message".
func (sp *spec) same(i, j int) bool { return i == j || sp.ident(i) == sp.ident(j) }

const (
	relSame      = "same"
	relUnrelated = "unrelated"
	relRunOn     = "adjacent_header_fields_run_together"
)

// identRelation names how two messages relate: the same, differing in exactly
// one component, differing only in where one header field ends and the next one
// begins, or unrelated (anything else).
func identRelation(a, b ident) string {
	if a == b {
		return relSame
	}
	var diff []string
	if a.typ != b.typ {
		diff = append(diff, "type")
	}
	if a.bc != b.bc {
		diff = append(diff, "bcname")
	}
	if a.fr != b.fr {
		diff = append(diff, "from")
	}
	if a.logid != b.logid {
		diff = append(diff, "logid")
	}
	if a.payload != b.payload {
		diff = append(diff, "payload")
	}
	if len(diff) == 1 {
		return "differ_in_" + diff[0] + "_only"
	}
	if a.payload == b.payload && a.typ.String()+a.bc+a.fr+a.logid == b.typ.String()+b.bc+b.fr+b.logid {
		return relRunOn
	}
	return relUnrelated
}

// twinKind derives a twin from an original.
type twinKind struct {
	name string
	of   func(ident) ident
}

// twin kinds of the operation-sequence / schedule enumeration (message m3 = twin of m0)
var twinKinds = []twinKind{
	{"payload only", func(a ident) ident { a.payload = "is block 2222 on your trunk?"; return a }},
	{"type only", func(a ident) ident { a.typ = pb.XuperMessage_POSTTX; return a }},
	{"chain name only", func(a ident) ident { a.bc = "other"; return a }},
	{"sender only", func(a ident) ident { a.fr = "peerB"; return a }},
	{"log id only", func(a ident) ident { a.logid += "x"; return a }},
	{"equal copy in a separate object", func(a ident) ident { return a }},
	{"chain name | sender boundary moved", func(a ident) ident { return moveBoundary(a, 1, +1) }},
	{"sender | log id boundary moved", func(a ident) ident { return moveBoundary(a, 2, +1) }},
	{"sender | log id boundary moved back", func(a ident) ident { return moveBoundary(a, 2, -1) }},
}

func numTwins() int       { return len(twinKinds) }
func numPopulations() int { return numVariants() + numTwins() }

// moveBoundary moves the boundary between header field k and k+1 (1 = chain
// name | sender, 2 = sender | log id) by one character: +1 the left field grows
// by the first character of the right one, -1 the right field grows by the last
// character of the left one. Returns a unchanged if the donor field is empty.
func moveBoundary(a ident, k, dir int) ident {
	var l, r *string
	switch k {
	case 1:
		l, r = &a.bc, &a.fr
	case 2:
		l, r = &a.fr, &a.logid
	default:
		return a
	}
	if dir > 0 && len(*r) > 0 {
		*l, *r = *l+(*r)[:1], (*r)[1:]
	} else if dir < 0 && len(*l) > 0 {
		*l, *r = (*l)[:len(*l)-1], (*l)[len(*l)-1:]+*r
	}
	return a
}

// typePrefixTwin: if the enum name of another type of the list is a proper
// prefix of a's type name (GET_BLOCK / GET_BLOCK_RES) the rest of the name moves
// into the chain name, and the other way round if a's chain name starts with it.
func typePrefixTwins(a ident, types []pb.XuperMessage_MessageType) []ident {
	var out []ident
	an := a.typ.String()
	for _, t := range types {
		tn := t.String()
		switch {
		case t == a.typ:
		case strings.HasPrefix(an, tn):
			b := a
			b.typ, b.bc = t, an[len(tn):]+a.bc
			out = append(out, b)
		case strings.HasPrefix(tn, an) && strings.HasPrefix(a.bc, tn[len(an):]):
			b := a
			b.typ, b.bc = t, a.bc[len(tn)-len(an):]
			out = append(out, b)
		}
	}
	return out
}
