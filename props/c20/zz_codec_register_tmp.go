package c20

import "verif/core"

func init() {
	core.Register(&core.Check{ID: "C20", Run: func(t core.Tier) *core.Report {
		rep := core.NewReport("C20", t, "exploration")
		RunCodec(rep, t)
		return rep
	}, Replay: ReplayCodec})
}
