// Package chain is the node-level instance shared by the chain properties
// (C01, C02, C03, C05, C17, C18): a real Ledger + State over a block / tx
// universe, driven by events, with pluggable oracles.
package chain

import (
	"bytes"
	"crypto/sha256"
	"fmt"
	"math/big"
	"sort"
	"strings"

	"github.com/golang/protobuf/proto"

	pb "github.com/xuperchain/xupercore/bcs/ledger/xledger/xldgpb"
	"github.com/xuperchain/xupercore/verifshim/vhook"

	"verif/core"
	"verif/world"
)

// Menu selects the events offered.
type Menu struct {
	Recv     bool
	Sync     bool
	WalkAll  bool // walk to every stored block
	WalkSome bool // walk to leaves, to the parent of the pointer and to genesis
	Play     bool
	Submit   []string // tx names that may be submitted
	DoTx     []string // tx names that may be handed to State.DoTx directly, without VerifyTx (the state machine's own admission checks)
	Mine     int      // max number of mine events per history
	Restart  bool
	Query    bool
	Fail     int      // fault variants fail1..failN of every state-changing event
	Defer    bool     // deferred drain of the recovery goroutine (dsync / dwalk)
	Blocks   []string // block names offered for recv (default: all of the universe)
	Prune    bool     // prune walks (Walk(x, true))
	Truncate bool     // truncation as the miner does it: Walk(t) then Ledger.Truncate(t)
	// KeyEvents adds the multiset of applied events to the canonical key: two
	// histories are merged only if they are permutations of each other. Without
	// it histories that reach the same stores and answers through different
	// events are merged although hidden cache content may differ (DESIGN 2.5).
	KeyEvents bool
}

// Oracle observes events and judges states.
type Oracle interface {
	// Before is called before an event is applied.
	Before(i *Inst, ev string)
	// After is called after an event was applied with its observation.
	After(i *Inst, ev string, obs string)
	// Check judges the current state (called on the final state of a history).
	Check(i *Inst, hist []string) []core.Violation
}

// Inst is one node under exploration.
type Inst struct {
	U    *world.Universe
	W    *world.World
	Menu Menu
	Orcs []Oracle

	// block book: universe blocks plus blocks mined in this history
	blocks  map[string][]byte
	Parent  map[string]string
	Height  map[string]int64
	Names   *world.Names
	mined   int
	minedID map[string][]byte

	// Ref is the ledger reference tree; Accepted is the sequence of block names
	// the ledger accepted, in order.
	Ref      *world.RefTree
	Accepted []string
	// Failed is the set of events that reported failure.
	Failed map[string]bool
	// Pruned / Truncs count prune walks and truncations.
	Pruned, Truncs, Restarts int
	last                     string
	sawBlockFromPeer         bool
	applied                  []string
	horizon                  int // number of events this execution will apply (0: unknown)
	pendingViol              []core.Violation
}

// New creates an instance.
func New(u *world.Universe, menu Menu, orcs ...Oracle) *Inst {
	vhook.Capture()
	vhook.Discard()
	i := &Inst{U: u, W: u.NewWorld(), Menu: menu, Orcs: orcs, blocks: map[string][]byte{}, Parent: map[string]string{}, Height: map[string]int64{},
		Failed: map[string]bool{}}
	// a per-instance copy of the universe tables so mined blocks can be added
	cu := *u
	cu.Parent = map[string]string{}
	cu.Height = map[string]int64{}
	for k, v := range u.Parent {
		cu.Parent[k] = v
		i.Parent[k] = v
	}
	for k, v := range u.Height {
		cu.Height[k] = v
		i.Height[k] = v
	}
	i.Names = u.Names
	i.Ref = world.NewRefTree(u)
	return i
}

// Close drops the instance.
func (i *Inst) Close() {
	vhook.Discard()
	i.W.Drop()
}

// Block returns a fresh copy of a named block (universe or mined).
func (i *Inst) Block(name string) *pb.InternalBlock {
	if buf, ok := i.blocks[name]; ok {
		b := &pb.InternalBlock{}
		if err := proto.Unmarshal(buf, b); err != nil {
			panic(err)
		}
		return b
	}
	return i.U.Block(name)
}

// ID returns a block id by name.
func (i *Inst) ID(name string) []byte { return i.Block(name).Blockid }

// NameOf returns the symbolic name of an id.
func (i *Inst) NameOf(id []byte) string {
	for n, mid := range i.minedID {
		if bytes.Equal(mid, id) {
			return n
		}
	}
	return i.Names.Of(id)
}

// Ptr returns the name of the block the state machine is at.
func (i *Inst) Ptr() string { return i.NameOf(i.W.State.GetLatestBlockid()) }

// LedgerTip returns the name of the ledger tip.
func (i *Inst) LedgerTip() string { return i.NameOf(i.W.Ledger.GetMeta().TipBlockid) }

// Chain returns genesis..name.
func (i *Inst) Chain(name string) []string {
	var rev []string
	for n := name; n != ""; n = i.Parent[n] {
		rev = append(rev, n)
	}
	out := make([]string, len(rev))
	for k, n := range rev {
		out[len(rev)-1-k] = n
	}
	return out
}

// Stored reports whether the ledger holds the block (by the reference).
func (i *Inst) Stored(name string) bool { return i.Ref.Stored[name] }

// PoolNames returns the pool in the order GetUnconfirmedTx yields it.
func (i *Inst) PoolNames() []string {
	txs, err := i.W.State.GetUnconfirmedTx(false)
	if err != nil {
		return []string{"ERR:" + err.Error()}
	}
	var out []string
	for _, t := range txs {
		out = append(out, i.Names.Of(t.Txid))
	}
	return out
}

func (i *Inst) offered() []string {
	if i.Menu.Blocks != nil {
		return i.Menu.Blocks
	}
	var out []string
	for _, n := range i.U.BOrder {
		if n != "g" && n != "o1" {
			out = append(out, n)
		}
	}
	return out
}

// Enabled lists the events of the current state.
func (i *Inst) Enabled() []string {
	var evs []string
	add := func(ev string, failable bool) {
		evs = append(evs, ev)
		if failable {
			for k := 1; k <= i.Menu.Fail; k++ {
				evs = append(evs, fmt.Sprintf("fail%d/%s", k, ev))
			}
		}
	}
	ptr := i.Ptr()
	tip := i.LedgerTip()
	if i.Menu.Recv {
		for _, n := range i.offered() {
			if i.Ref.Stored[n] || i.Failed["recv:"+n] {
				continue
			}
			p := i.U.Parent[n]
			if i.Ref.Stored[p] || i.U.Bad[n] {
				add("recv:"+n, true)
			}
		}
	}
	if i.Menu.Sync && ptr != tip {
		add("sync", true)
		if i.Menu.Defer {
			add("dsync", false)
		}
	}
	if i.Menu.Play {
		for _, n := range i.Ref.StoredSorted() {
			if i.Parent[n] == ptr && n != "g" {
				add("play:"+n, true)
			}
		}
	}
	if i.Menu.WalkAll || i.Menu.WalkSome {
		leaves := map[string]bool{}
		for _, l := range i.Ref.Leaves() {
			leaves[l] = true
		}
		for _, n := range i.Ref.StoredSorted() {
			if n == ptr {
				continue
			}
			if n == tip && i.Menu.Sync {
				continue // same as sync
			}
			if i.Menu.WalkAll || leaves[n] || n == i.Parent[ptr] || n == "g" {
				add("walk:"+n, true)
				if i.Menu.Prune {
					add("prune:"+n, false)
				}
			}
		}
	}
	for _, t := range i.Menu.Submit {
		if !i.Failed["submit:"+t] {
			add("submit:"+t, true)
		}
	}
	for _, t := range i.Menu.DoTx {
		if !i.Failed["dotx:"+t] {
			add("dotx:"+t, false)
		}
	}
	if i.Menu.Mine > i.mined {
		add("mine", true)
	}
	if i.Menu.Truncate {
		trunk := i.Ref.Trunk()
		for k := len(trunk) - 2; k >= 0 && k >= len(trunk)-3; k-- {
			add("trunc:"+trunk[k], true)
		}
	}
	if i.Menu.Restart && i.last != "restart" {
		add("restart", false)
	}
	if i.Menu.Query && i.last != "query" {
		add("query", false)
	}
	return evs
}

// minedID maps mined block names to ids.
func (i *Inst) registerMined(name, parent string, blk *pb.InternalBlock) {
	buf, err := proto.Marshal(blk)
	if err != nil {
		panic(err)
	}
	i.blocks[name] = buf
	if i.minedID == nil {
		i.minedID = map[string][]byte{}
	}
	i.minedID[name] = blk.Blockid
	i.Parent[name] = parent
	i.Height[name] = i.Height[parent] + 1
	// the reference tree works on the universe tables: extend them (per instance copy)
	i.Ref.U = i.refUniverse()
}

// refUniverse returns a universe view that includes mined blocks (cheap: shares
// the immutable parts and carries its own Parent / Height maps).
func (i *Inst) refUniverse() *world.Universe {
	cu := *i.U
	cu.Parent = i.Parent
	cu.Height = i.Height
	return &cu
}

// SetHorizon is called by the explorer before a replay (see xplore.setHorizon).
func (i *Inst) SetHorizon(n int) { i.horizon = n }

// LastEvent reports whether the event being applied (Before) or just applied
// (After) is the last one of this execution; true when the horizon is unknown.
func (i *Inst) lastEvent(after bool) bool {
	if i.horizon == 0 {
		return true
	}
	n := len(i.applied)
	if !after {
		n++
	}
	return n >= i.horizon
}

// Apply performs one event.
func (i *Inst) Apply(ev string) string {
	for _, o := range i.Orcs {
		o.Before(i, ev)
	}
	obs := i.apply(ev)
	i.last = ev
	i.applied = append(i.applied, ev)
	if strings.HasPrefix(obs, "ERR") || strings.HasPrefix(obs, "refused") {
		i.Failed[ev] = true
	}
	for _, o := range i.Orcs {
		o.After(i, ev, obs)
	}
	return obs
}

func (i *Inst) apply(ev string) string {
	// fault variant
	if strings.HasPrefix(ev, "fail") {
		k := 0
		rest := ""
		if n, _ := fmt.Sscanf(ev, "fail%d/", &k); n == 1 {
			rest = ev[strings.IndexByte(ev, '/')+1:]
		}
		i.W.Space.Arm(k)
		obs := i.apply(rest)
		_, fired := i.W.Space.Disarm()
		if !fired {
			return "nofire " + obs
		}
		if !strings.HasPrefix(obs, "ERR") && !strings.HasPrefix(obs, "refused") {
			return "FAULT-SWALLOWED " + obs
		}
		return obs
	}
	parts := strings.SplitN(ev, ":", 2)
	arg := ""
	if len(parts) > 1 {
		arg = parts[1]
	}
	st := i.W.State
	switch parts[0] {
	case "recv":
		blk := i.Block(arg)
		if i.W.Ledger.ExistBlock(blk.Blockid) {
			return "exists"
		}
		ok, s := i.W.Recv(blk)
		if !ok {
			return "refused " + s
		}
		i.Ref.Accept(arg)
		i.Accepted = append(i.Accepted, arg)
		i.sawBlockFromPeer = true
		return s
	case "sync", "dsync":
		err := i.W.Sync()
		if parts[0] == "sync" {
			vhook.Drain()
		}
		return errObs(err)
	case "walk", "dwalk":
		err := st.Walk(i.ID(arg), false)
		if parts[0] == "walk" {
			vhook.Drain()
		}
		return errObs(err)
	case "prune":
		err := st.Walk(i.ID(arg), true)
		vhook.Drain()
		if err == nil {
			i.Pruned++
		}
		return errObs(err)
	case "play":
		err := st.Play(i.ID(arg))
		r := errObs(err)
		i.drainDeferred()
		return r
	case "dotx":
		err := st.DoTx(world.CloneTx(i.U.Tx(arg)))
		r := errObs(err)
		i.drainDeferred()
		return r
	case "submit":
		tx := i.U.Tx(arg)
		err := i.W.Submit(tx)
		r := errObs(err)
		i.drainDeferred()
		return r
	case "mine":
		return i.mine()
	case "trunc":
		if err := st.Walk(i.ID(arg), false); err != nil {
			vhook.Drain()
			return errObs(err)
		}
		vhook.Drain()
		if err := i.W.Ledger.Truncate(i.ID(arg)); err != nil {
			return errObs(err)
		}
		i.Ref.Truncate(arg)
		i.Truncs++
		return "ok"
	case "restart":
		vhook.Discard() // a restart kills the recovery goroutine
		if err := i.W.Restart(); err != nil {
			return "ERR restart: " + err.Error()
		}
		i.Restarts++
		return "ok"
	case "query":
		Observe(i, i.W)
		world.CheckLedger(i.W.Ledger, i.Ref, nil)
		return "ok"
	}
	panic("bad event " + ev)
}

// drainDeferred runs a recovery goroutine left pending by dsync / dwalk.
func (i *Inst) drainDeferred() {
	vhook.Drain()
}

func errObs(err error) string {
	if err == nil {
		return "ok"
	}
	return "ERR " + err.Error()
}

// mine performs one producer step as Miner.mining does: walk to the ledger tip
// if needed, pack award + pool, confirm, PlayForMiner.
func (i *Inst) mine() string {
	st := i.W.State
	tipID := i.W.Ledger.GetMeta().TipBlockid
	if !bytes.Equal(tipID, st.GetLatestBlockid()) {
		if err := st.Walk(tipID, false); err != nil {
			vhook.Drain()
			return "ERR mining walk failed: " + err.Error()
		}
		vhook.Drain()
	}
	parentName := i.Ptr()
	parent := i.Block(parentName)
	pool, err := st.GetUnconfirmedTx(false)
	if err != nil {
		return "ERR pool: " + err.Error()
	}
	var names []string
	for _, t := range pool {
		names = append(names, i.Names.Of(t.Txid))
	}
	name := fmt.Sprintf("m[%s|%s]", parentName, strings.Join(names, ","))
	blk, err := i.W.FormatBlock("M", parent, pool, 1000+parent.Height+1, name)
	if err != nil {
		return "ERR format: " + err.Error()
	}
	i.mined++
	stored := world.CloneBlock(blk)
	if ok, s := i.W.Recv(blk); !ok {
		return "refused own block " + s
	}
	i.registerMined(name, parentName, stored)
	i.Ref.Accept(name)
	i.Accepted = append(i.Accepted, name)
	if err := st.PlayForMiner(blk.Blockid); err != nil {
		return "ERR PlayForMiner: " + err.Error()
	}
	return "mined " + name
}

// Check runs the oracles.
func (i *Inst) Check(hist []string) []core.Violation {
	var out []core.Violation
	for _, o := range i.Orcs {
		out = append(out, o.Check(i, hist)...)
	}
	for k := range out {
		if out[k].Case == nil {
			out[k].Case = map[string]interface{}{"universe": i.U.Name, "history": hist}
		}
		out[k].Summary = fmt.Sprintf("after %v: %s", hist, out[k].Summary)
	}
	return out
}

// Key is the canonical state key: canonical dump of both stores, the live
// observation suite, and the set of failed events.
func (i *Inst) Key() string {
	h := sha256.New()
	h.Write([]byte(CanonDump(i.W)))
	obs := Observe(i, i.W)
	keys := make([]string, 0, len(obs))
	for k := range obs {
		keys = append(keys, k)
	}
	sort.Strings(keys)
	for _, k := range keys {
		h.Write([]byte(k))
		h.Write([]byte{0})
		h.Write([]byte(obs[k]))
		h.Write([]byte{1})
	}
	var f []string
	for k := range i.Failed {
		f = append(f, k)
	}
	sort.Strings(f)
	evs := ""
	if i.Menu.KeyEvents {
		m := append([]string(nil), i.applied...)
		sort.Strings(m)
		evs = strings.Join(m, ",")
	}
	return fmt.Sprintf("%x|%v|%d|%d|%s|%d|%s", h.Sum(nil), f, i.mined, vhook.Pending(), lastKind(i.last), i.Pruned, evs)
}

func lastKind(ev string) string {
	if ev == "restart" || ev == "query" {
		return ev
	}
	return ""
}

// CanonDump renders both stores with nondeterministic fields zeroed
// (block signatures, received timestamps).
func CanonDump(w *world.World) string {
	var sb strings.Builder
	for _, suffix := range []string{"ledger", "utxoVM"} {
		for _, kv := range w.Space.Dump(suffix) {
			k, v := kv[0], kv[1]
			switch {
			case suffix == "ledger" && len(k) > 0 && k[0] == 'B':
				b := &pb.InternalBlock{}
				if proto.Unmarshal(v, b) == nil {
					b.Sign = nil
					v, _ = proto.Marshal(b)
				}
			case (suffix == "ledger" && len(k) > 0 && k[0] == 'C') || (suffix == "utxoVM" && len(k) > 0 && k[0] == 'N'):
				t := &pb.Transaction{}
				if proto.Unmarshal(v, t) == nil {
					t.ReceivedTimestamp = 0
					v, _ = proto.Marshal(t)
				}
			}
			fmt.Fprintf(&sb, "%s/%x=%x\n", suffix, k, v)
		}
	}
	return sb.String()
}

// Addresses whose balances are observed.
var Addresses = []string{"A", "B", "C", "D", "M", "P"}

// KVKeys are the harness-contract keys observed.
var KVKeys = []string{"k1", "k2", "k3"}

// Observe returns the state observation suite of C01 on world w (names from i).
func Observe(i *Inst, w *world.World) map[string]string {
	o := map[string]string{}
	st := w.State
	nm := i.Names
	o["ptr"] = i.NameOf(st.GetLatestBlockid())
	o["total"] = st.GetTotal().String()
	for _, a := range Addresses {
		b, err := st.GetBalance(world.Addr(a))
		if err != nil {
			o["bal:"+a] = "ERR " + err.Error()
		} else {
			o["bal:"+a] = b.String()
		}
		d, err := st.GetBalanceDetail(world.Addr(a))
		if err != nil {
			o["detail:"+a] = "ERR " + err.Error()
		} else {
			s := ""
			for _, x := range d {
				s += fmt.Sprintf("%v=%s;", x.IsFrozen, x.Balance)
			}
			o["detail:"+a] = s
		}
	}
	m := st.GetMeta()
	o["meta"] = fmt.Sprintf("maxblk=%d newacc=%d win=%d gas=%v reserved=%d", m.MaxBlockSize, m.NewAccountResourceAmount,
		m.IrreversibleSlideWindow, m.GasPrice, len(m.ReservedContracts))
	o["irr"] = fmt.Sprint(m.IrreversibleBlockHeight)
	rd := st.CreateXMReader()
	for _, k := range KVKeys {
		v, err := rd.Get(world.VKVBucket, []byte(k))
		if err != nil {
			o["kv:"+k] = "ERR " + err.Error()
		} else {
			o["kv:"+k] = fmt.Sprintf("%q@%s_%d", v.GetPureData().GetValue(), nm.Of(v.RefTxid), v.RefOffset)
		}
	}
	it, err := rd.Select(world.VKVBucket, []byte(""), []byte("~"))
	if err != nil {
		o["select"] = "ERR " + err.Error()
	} else {
		s := ""
		for it.Next() {
			v := it.Value()
			s += fmt.Sprintf("%s=%q@%s;", it.Key(), v.GetPureData().GetValue(), nm.Of(v.RefTxid))
		}
		if it.Error() != nil {
			s += "ERR " + it.Error().Error()
		}
		it.Close()
		o["select"] = s
	}
	for _, tn := range i.U.TOrder {
		tx := i.U.Tx(tn)
		got, confirmed, err := st.QueryTx(tx.Txid)
		if err != nil {
			o["tx:"+tn] = "absent"
		} else {
			o["tx:"+tn] = fmt.Sprintf("found confirmed=%v blk=%s", confirmed, i.NameOf(got.Blockid))
		}
	}
	// raw tables U, ZU, M
	for _, kv := range w.Space.Dump("utxoVM") {
		k := string(kv[0])
		if strings.HasPrefix(k, "U") || strings.HasPrefix(k, "ZU") || strings.HasPrefix(k, "M") {
			o["raw:"+nm.Replace(k)] = nm.Replace(string(kv[1]))
		}
	}
	o["pool"] = strings.Join(poolOf(i, w), ",")
	return o
}

func poolOf(i *Inst, w *world.World) []string {
	txs, err := w.State.GetUnconfirmedTx(false)
	if err != nil {
		return []string{"ERR:" + err.Error()}
	}
	var out []string
	for _, t := range txs {
		out = append(out, i.Names.Of(t.Txid))
	}
	return out
}

// Diff returns the keys on which two observations differ.
func Diff(a, b map[string]string) []string {
	var out []string
	for k, v := range a {
		if bv, ok := b[k]; !ok {
			out = append(out, fmt.Sprintf("%s: %q vs <absent>", k, v))
		} else if bv != v {
			out = append(out, fmt.Sprintf("%s: %q vs %q", k, v, bv))
		}
	}
	for k, v := range b {
		if _, ok := a[k]; !ok {
			out = append(out, fmt.Sprintf("%s: <absent> vs %q", k, v))
		}
	}
	sort.Strings(out)
	return out
}

// Replica builds a fresh node whose ledger confirmed the same blocks in the
// same order and whose state machine walked from genesis straight to target,
// then submits the given pool transactions in order.
func (i *Inst) Replica(target string, pool []string) (*world.World, error) {
	r := i.U.NewWorld()
	for _, n := range i.Accepted {
		if !i.Ref.Stored[n] {
			continue // truncated away
		}
		if ok, s := r.Recv(i.Block(n)); !ok {
			r.Drop()
			return nil, fmt.Errorf("replica ledger refused %s: %s", n, s)
		}
	}
	if target != "g" {
		if err := r.State.Walk(i.ID(target), false); err != nil {
			vhook.Drain()
			r.Drop()
			return nil, fmt.Errorf("replica walk to %s: %v", target, err)
		}
		vhook.Drain()
	}
	for _, tn := range pool {
		if err := r.Submit(i.U.Tx(tn)); err != nil {
			r.Drop()
			return nil, fmt.Errorf("replica refused pool tx %s: %v", tn, err)
		}
	}
	return r, nil
}

// SumBig parses and sums decimal strings.
func SumBig(xs ...string) *big.Int {
	s := new(big.Int)
	for _, x := range xs {
		n, _ := new(big.Int).SetString(x, 10)
		if n != nil {
			s.Add(s, n)
		}
	}
	return s
}

// NewOn wraps an already opened world (e.g. on a clone of a prepared store
// image) whose ledger accepted the given blocks in that order.
func NewOn(u *world.Universe, w *world.World, accepted []string, menu Menu, orcs ...Oracle) *Inst {
	vhook.Capture()
	vhook.Discard()
	i := &Inst{U: u, W: w, Menu: menu, Orcs: orcs, blocks: map[string][]byte{}, Parent: map[string]string{}, Height: map[string]int64{},
		Failed: map[string]bool{}}
	for k, v := range u.Parent {
		i.Parent[k] = v
	}
	for k, v := range u.Height {
		i.Height[k] = v
	}
	i.Names = u.Names
	i.Ref = world.NewRefTree(u)
	for _, n := range accepted {
		i.Ref.Accept(n)
		i.Accepted = append(i.Accepted, n)
	}
	return i
}
