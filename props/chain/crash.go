package chain

import (
	"fmt"
	"sort"
	"strings"

	"github.com/xuperchain/xupercore/verifshim/vhook"

	"verif/core"
	"verif/engine/vkv"
	"verif/world"
)

func vkvFromImage(root string, base map[string]map[string][]byte, log []vkv.Write, n int) *vkv.Space {
	return vkv.FromImage(root, base, log, n)
}

func describeWrites(log []vkv.Write, n int) string {
	var parts []string
	for k, w := range log {
		st := "ledger"
		if strings.HasSuffix(w.Store, "utxoVM") {
			st = "state"
		}
		mark := ""
		if k == n {
			mark = "<crash>"
		}
		kind := "put"
		if w.Batch {
			kind = fmt.Sprintf("batch[%d]", len(w.Ops))
		} else if len(w.Ops) == 1 && w.Ops[0].Del {
			kind = "del"
		}
		parts = append(parts, mark+st+":"+kind)
	}
	if n >= len(log) {
		parts = append(parts, "<crash>")
	}
	return strings.Join(parts, " ")
}

// checkImage opens a node on the image and checks what C06 states.
func checkImage(i *Inst, sp *vkv.Space) (out []core.Violation) {
	defer sp.Drop()
	bad := func(key, f string, a ...interface{}) {
		out = append(out, core.Violation{Key: "c06." + key, Summary: fmt.Sprintf(f, a...)})
	}
	defer func() {
		if r := recover(); r != nil {
			bad("panic", "panic on the post-crash image: %v", r)
		}
	}()
	w, err := world.Open(i.U.Cfg, sp, i.U.Hook)
	if err != nil {
		bad("open", "cannot open on the post-crash image: %v", err)
		return
	}
	// reference tree derived from the image: stored set, tip from meta
	ref := world.NewRefTree(i.refUniverse())
	ref.Stored = map[string]bool{}
	names := append([]string(nil), i.U.BOrder...)
	for n := range i.minedID {
		names = append(names, n)
	}
	sort.Strings(names)
	for _, n := range names {
		if w.Ledger.ExistBlock(i.ID(n)) {
			ref.Stored[n] = true
		}
	}
	tip := i.NameOf(w.Ledger.GetMeta().TipBlockid)
	if !ref.Stored[tip] {
		bad("ledger.tip_missing", "ledger tip %s is not a stored block", tip)
		return
	}
	ref.Tip = tip
	for _, is := range checkLedgerBook(i, w, ref) {
		bad("ledger."+is.Code, "ledger invariant broken: %s", is.Detail)
	}
	if len(out) > 0 {
		return
	}
	ptr := i.NameOf(w.State.GetLatestBlockid())
	if !ref.Stored[ptr] {
		bad("state.pointer_missing", "state pointer %s names a block the ledger does not hold", ptr)
		return
	}
	// C02 on the image
	tmp := *i
	tmp.W = w
	for _, v := range conservation(&tmp, w, "image") {
		out = append(out, core.Violation{Key: strings.Replace(v.Key, "c02.", "c06.state.", 1), Summary: v.Summary})
	}
	// C01 on the image: replica with the same stored blocks and tip
	pool := poolOf(i, w)
	rep, err := replicaFor(i, ref, ptr, pool)
	if err != nil {
		bad("state.replica", "state at %s with pool %v cannot be reproduced by a fresh node: %v", ptr, pool, err)
		return
	}
	d := crashDiff(i, Observe(i, w), Observe(i, rep))
	rep.Drop()
	if len(d) > 0 {
		bad("state.differs."+diffKind(d), "recovered state at %s (pool %v) differs from a fresh replay: %s", ptr, pool, strings.Join(head(d, 4), " | "))
		return
	}
	// synchronising to the ledger tip reaches the uninterrupted state; a walk
	// that would have to undo a block at or below the irreversible height is
	// refused by design (C17) and not a crash defect
	irr := w.State.GetMeta().IrreversibleBlockHeight
	undo, _ := refUndoTodoInst(i, ptr, tip)
	for _, b := range undo {
		if i.U.Cfg.Window > 0 && i.Height[b] <= irr {
			return
		}
	}
	if err := w.State.Walk(w.Ledger.GetMeta().TipBlockid, false); err != nil {
		vhook.Drain()
		bad("sync", "Walk to the ledger tip %s fails on the recovered node: %v", tip, err)
		return
	}
	vhook.Drain()
	pool2 := poolOf(i, w)
	rep2, err := replicaFor(i, ref, tip, pool2)
	if err != nil {
		bad("sync.replica", "after synchronising to %s with pool %v: %v", tip, pool2, err)
		return
	}
	d = crashDiff(i, Observe(i, w), Observe(i, rep2))
	rep2.Drop()
	if len(d) > 0 {
		bad("sync.differs."+diffKind(d), "after synchronising to %s the recovered node differs from an uninterrupted one: %s", tip, strings.Join(head(d, 4), " | "))
	}
	return
}

// checkLedgerBook runs CheckLedger with a universe view that knows mined blocks.
func checkLedgerBook(i *Inst, w *world.World, ref *world.RefTree) []world.LedgerIssue {
	if len(i.minedID) == 0 {
		return world.CheckLedger(w.Ledger, ref, nil)
	}
	// CheckLedger iterates the universe's block order; mined blocks are checked
	// through the structural queries only (LedgerObserve covers their flags).
	var out []world.LedgerIssue
	for _, is := range world.CheckLedger(w.Ledger, ref, nil) {
		// issues that only stem from the universe view not knowing mined blocks
		if strings.Contains(is.Detail, "?") || strings.Contains(is.Detail, "m[") {
			continue
		}
		if is.Code == "branch_info" || is.Code == "dump" || is.Code == "tip" || is.Code == "trunk_height" || is.Code == "tip_not_max" || is.Code == "height_index" {
			continue
		}
		out = append(out, is)
	}
	return out
}

// replicaFor builds a fresh node holding the same stored blocks with the same
// tip, walks it to target and submits pool.
func replicaFor(i *Inst, ref *world.RefTree, target string, pool []string) (*world.World, error) {
	r := i.U.NewWorld()
	done := map[string]bool{"g": true}
	var order []string
	for _, n := range i.Chain(ref.Tip) {
		if !done[n] {
			order = append(order, n)
			done[n] = true
		}
	}
	rest := ref.StoredSorted()
	sort.Slice(rest, func(a, b int) bool {
		if i.Height[rest[a]] != i.Height[rest[b]] {
			return i.Height[rest[a]] < i.Height[rest[b]]
		}
		return rest[a] < rest[b]
	})
	for _, n := range rest {
		if !done[n] {
			order = append(order, n)
			done[n] = true
		}
	}
	for _, n := range order {
		if !ref.Stored[i.Parent[n]] {
			continue // orphan remainder of a truncated branch
		}
		if ok, s := r.Recv(i.Block(n)); !ok {
			r.Drop()
			return nil, fmt.Errorf("replica ledger refused %s: %s", n, s)
		}
	}
	if target != "g" {
		if err := r.State.Walk(i.ID(target), false); err != nil {
			vhook.Drain()
			r.Drop()
			return nil, fmt.Errorf("replica walk to %s: %v", target, err)
		}
		vhook.Drain()
	}
	for _, tn := range pool {
		if strings.HasPrefix(tn, "?") || strings.HasPrefix(tn, "ERR") {
			r.Drop()
			return nil, fmt.Errorf("pool holds an unknown transaction %s", tn)
		}
		if err := r.Submit(i.U.Tx(tn)); err != nil {
			r.Drop()
			return nil, fmt.Errorf("replica refused pool tx %s: %v", tn, err)
		}
	}
	return r, nil
}

// crashDiff compares two state observations, leaving out what is not a
// function of the applied chain: QueryTx answers (they read the ledger's
// confirmed table, which depends on the ledger's own history) and, with a
// slide window, the irreversible height (history dependent by definition, C17).
func crashDiff(i *Inst, a, b map[string]string) []string {
	strip := func(m map[string]string) map[string]string {
		o := map[string]string{}
		for k, v := range m {
			if strings.HasPrefix(k, "tx:") {
				continue
			}
			if i.U.Cfg.Window > 0 && (k == "irr" || k == "raw:MIrreversibleBlockHeight") {
				continue
			}
			o[k] = v
		}
		return o
	}
	return Diff(strip(a), strip(b))
}
