package chain

import (
	"fmt"
	"math/big"
	"strings"

	"github.com/xuperchain/xupercore/bcs/ledger/xledger/state/utxo"
	pb "github.com/xuperchain/xupercore/bcs/ledger/xledger/xldgpb"

	"verif/core"
	"verif/world"
)

// ---------------------------------------------------------------------------
// C01: state at a block is a pure function of that block's chain.

// PureOracle compares the live state with a fresh replica that walked from
// genesis straight to the same block (and submitted the same pool).
type PureOracle struct{}

func (PureOracle) Before(i *Inst, ev string)            {}
func (PureOracle) After(i *Inst, ev string, obs string) {}

func (PureOracle) Check(i *Inst, hist []string) []core.Violation {
	if i.Pruned > 0 {
		return nil
	}
	ptr := i.Ptr()
	if strings.HasPrefix(ptr, "?") {
		return []core.Violation{{Key: "c01.pointer_unknown", Summary: "state pointer names an unknown block " + ptr}}
	}
	pool := i.PoolNames()
	r, err := i.Replica(ptr, pool)
	if err != nil {
		return []core.Violation{{Key: "c01.replica_failed." + classifyErr(err.Error()), Summary: fmt.Sprintf("state is at %s with pool %v but a fresh node cannot reach that: %v", ptr, pool, err)}}
	}
	defer r.Drop()
	live := Observe(i, i.W)
	rep := Observe(i, r)
	d := Diff(live, rep)
	if len(d) == 0 {
		return nil
	}
	return []core.Violation{{
		Key:      "c01.differs." + diffKind(d) + ctx(i),
		Summary:  fmt.Sprintf("state at %s (pool %v) differs from a fresh replay of genesis..%s: %s", ptr, pool, ptr, strings.Join(head(d, 4), " | ")),
		Expected: "observations of a fresh node that played genesis.." + ptr,
		Observed: strings.Join(head(d, 8), " | "),
	}}
}

func head(s []string, n int) []string {
	if len(s) > n {
		return s[:n]
	}
	return s
}

func classifyErr(s string) string {
	switch {
	case strings.Contains(s, "refused pool tx"):
		return "pool_tx"
	case strings.Contains(s, "walk"):
		return "walk"
	case strings.Contains(s, "ledger refused"):
		return "ledger"
	}
	return "other"
}

// diffKind names the kind of the first differing observation.
func diffKind(d []string) string {
	kinds := map[string]bool{}
	for _, x := range d {
		k := x
		if j := strings.IndexAny(x, ":"); j >= 0 {
			k = x[:j]
		}
		if k == "raw" {
			rest := x[4:]
			switch {
			case strings.HasPrefix(rest, "ZU"):
				k = "raw_ZU"
			case strings.HasPrefix(rest, "U"):
				k = "raw_U"
			case strings.HasPrefix(rest, "M"):
				k = "raw_M"
			}
		}
		kinds[k] = true
	}
	var ks []string
	for _, k := range []string{"ptr", "total", "bal", "detail", "meta", "kv", "select", "tx", "raw_U", "raw_ZU", "raw_M", "pool"} {
		if kinds[k] {
			ks = append(ks, k)
		}
	}
	return strings.Join(ks, "+")
}

func ctx(i *Inst) string {
	c := ""
	if len(i.Failed) > 0 {
		c += ".after_failure"
	}
	if i.Restarts > 0 {
		c += ".after_restart"
	}
	if i.Truncs > 0 {
		c += ".after_truncate"
	}
	return c
}

// ---------------------------------------------------------------------------
// C02: token conservation.

// ConservationOracle checks the conservation equalities in every state, on the
// live instance and on a reopened one.
type ConservationOracle struct{}

func (ConservationOracle) Before(i *Inst, ev string)            {}
func (ConservationOracle) After(i *Inst, ev string, obs string) {}

func (ConservationOracle) Check(i *Inst, hist []string) []core.Violation {
	var out []core.Violation
	out = append(out, conservation(i, i.W, "live")...)
	if r, err := i.W.Reopened(); err != nil {
		out = append(out, core.Violation{Key: "c02.reopen_failed", Summary: "cannot reopen a copy of the stores: " + err.Error()})
	} else {
		out = append(out, conservation(i, r, "reopened")...)
		r.Drop()
	}
	return out
}

func conservation(i *Inst, w *world.World, which string) []core.Violation {
	var out []core.Violation
	bad := func(key, f string, a ...interface{}) {
		out = append(out, core.Violation{Key: "c02." + key + "." + which + ctx(i), Summary: which + " instance: " + fmt.Sprintf(f, a...)})
	}
	st := w.State
	// sum of the U table, per address
	sumU := new(big.Int)
	perAddr := map[string]*big.Int{}
	for _, kv := range w.Space.Dump("utxoVM") {
		k := string(kv[0])
		if !strings.HasPrefix(k, pb.UTXOTablePrefix) {
			continue
		}
		item := &utxo.UtxoItem{}
		if err := item.Loads(kv[1]); err != nil {
			bad("utxo_parse", "cannot parse utxo %q: %v", i.Names.Replace(k), err)
			continue
		}
		if item.Amount.Sign() < 0 {
			bad("negative_utxo", "negative utxo %q", i.Names.Replace(k))
		}
		sumU.Add(sumU, item.Amount)
		addr := k[1:strings.IndexByte(k, '_')]
		if perAddr[addr] == nil {
			perAddr[addr] = new(big.Int)
		}
		perAddr[addr].Add(perAddr[addr], item.Amount)
	}
	// fee outputs of pending transactions
	pool, err := st.GetUnconfirmedTx(false)
	if err != nil {
		bad("pool_error", "GetUnconfirmedTx: %v", err)
	}
	fees := new(big.Int)
	for _, t := range pool {
		for _, o := range t.TxOutputs {
			if string(o.ToAddr) == "$" {
				fees.Add(fees, new(big.Int).SetBytes(o.Amount))
			}
		}
		if d := balance(t); d != "" {
			bad("unbalanced_pool_tx", "pending tx %s: %s", i.Names.Of(t.Txid), d)
		}
	}
	total := st.GetTotal()
	lhs := new(big.Int).Add(sumU, fees)
	if lhs.Cmp(total) != 0 {
		bad("sum_vs_total", "sum of unspent outputs %s + pending fees %s != GetTotal %s", sumU, fees, total)
	}
	// coinbase outputs of the applied chain
	if i.U == nil { // bare world (ConservationOf): the chain as the ledger links it
		cb := new(big.Int)
		ok := true
		for id := st.GetLatestBlockid(); len(id) > 0; {
			blk, err := w.Ledger.QueryBlock(id)
			if err != nil {
				ok = false
				break
			}
			for _, t := range blk.Transactions {
				if t.Coinbase {
					for _, o := range t.TxOutputs {
						cb.Add(cb, new(big.Int).SetBytes(o.Amount))
					}
				} else if d := balance(t); d != "" {
					bad("unbalanced_chain_tx", "tx %s in applied block %s: %s", i.Names.Of(t.Txid), i.Names.Of(blk.Blockid), d)
				}
			}
			id = blk.PreHash
		}
		if ok && cb.Cmp(total) != 0 {
			bad("total_vs_coinbase", "GetTotal %s != coinbase outputs %s of the applied chain", total, cb)
		}
	}
	ptr := "?"
	if i.U != nil {
		ptr = i.NameOf(st.GetLatestBlockid())
	}
	cb := new(big.Int)
	if !strings.HasPrefix(ptr, "?") {
		for _, bn := range i.Chain(ptr) {
			blk := i.Block(bn)
			for _, t := range blk.Transactions {
				if t.Coinbase {
					for _, o := range t.TxOutputs {
						cb.Add(cb, new(big.Int).SetBytes(o.Amount))
					}
				} else if d := balance(t); d != "" && !i.U.Bad[bn] {
					bad("unbalanced_chain_tx", "tx %s in applied block %s: %s", i.Names.Of(t.Txid), bn, d)
				}
			}
		}
		if cb.Cmp(total) != 0 {
			bad("total_vs_coinbase", "GetTotal %s != coinbase outputs %s of the applied chain genesis..%s", total, cb, ptr)
		}
	}
	for _, a := range Addresses {
		addr := world.Addr(a)
		b, err := st.GetBalance(addr)
		if err != nil {
			bad("balance_error", "GetBalance(%s): %v", a, err)
			continue
		}
		want := perAddr[addr]
		if want == nil {
			want = new(big.Int)
		}
		if b.Cmp(want) != 0 {
			bad("balance_vs_utxo", "GetBalance(%s)=%s but its unspent outputs sum to %s", a, b, want)
		}
	}
	return out
}

// balance returns a description if inputs and outputs of a non-coinbase tx differ.
func balance(t *pb.Transaction) string {
	if t.Coinbase || t.Autogen {
		return ""
	}
	in, out := new(big.Int), new(big.Int)
	for _, x := range t.TxInputs {
		in.Add(in, new(big.Int).SetBytes(x.Amount))
	}
	for _, x := range t.TxOutputs {
		out.Add(out, new(big.Int).SetBytes(x.Amount))
	}
	if in.Cmp(out) != 0 {
		return fmt.Sprintf("inputs %s != outputs %s", in, out)
	}
	return ""
}

// ConservationOf runs the C02 equalities on a bare world (no instance).
func ConservationOf(w *world.World, names *world.Names, which string) []core.Violation {
	return conservation(&Inst{Names: names, Failed: map[string]bool{}}, w, which)
}

// (conservation reads the applied chain from the ledger when the instance has no universe)

// ObserveState is the universe-independent part of Observe: totals, balances,
// harness keys, range scan and the raw U / ZU / M tables.
func ObserveState(w *world.World, names *world.Names) map[string]string {
	u := &world.Universe{}
	o := Observe(&Inst{Names: names, U: u, Failed: map[string]bool{}}, w)
	delete(o, "ptr")
	return o
}
