package chain

import (
	"bytes"
	"crypto/sha256"
	"fmt"
	"math/big"
	"sort"
	"strings"
	"sync"
	"sync/atomic"

	pb "github.com/xuperchain/xupercore/bcs/ledger/xledger/xldgpb"

	"github.com/xuperchain/xupercore/verifshim/vhook"
	"verif/core"
	"verif/engine/vkv"
	"verif/world"
)

// ---------------------------------------------------------------------------
// C03: no double spend of outputs or key versions; admission iff inputs current.

type rmOut struct {
	owner  string
	amount []byte
	frozen int64
}

// RM is the boring reference model: unspent outputs, key -> current version.
type RM struct {
	utxo    map[string]rmOut  // "txid_offset" (raw) -> output
	version map[string]string // bucket/key -> "txid_offset" raw ("" = never written)
	spentBy map[string]string // utxo key -> tx name that spent it
	applied map[string]bool   // txids applied
}

func newRM() *RM {
	return &RM{utxo: map[string]rmOut{}, version: map[string]string{}, spentBy: map[string]string{}, applied: map[string]bool{}}
}

func outKey(txid []byte, off int32) string { return fmt.Sprintf("%x_%d", txid, off) }

// current reports why tx's inputs are not current (empty = all current).
func (m *RM) current(tx *pb.Transaction, ledgerHeight int64) string {
	seen := map[string]bool{}
	for _, in := range tx.TxInputs {
		k := outKey(in.RefTxid, in.RefOffset)
		if seen[k] {
			return "duplicate input " + k
		}
		seen[k] = true
		o, ok := m.utxo[k]
		if !ok {
			return "output not unspent"
		}
		if o.owner != string(in.FromAddr) {
			return "owner mismatch"
		}
		if !bytes.Equal(new(big.Int).SetBytes(o.amount).Bytes(), in.Amount) {
			return "amount mismatch"
		}
		if o.frozen == -1 || o.frozen > ledgerHeight {
			return "frozen"
		}
	}
	for _, in := range tx.TxInputsExt {
		k := in.Bucket + "/" + string(in.Key)
		want := ""
		if len(in.RefTxid) > 0 {
			want = outKey(in.RefTxid, in.RefOffset)
		}
		if m.version[k] != want {
			return "stale version of " + k
		}
	}
	return ""
}

// apply consumes inputs and creates outputs. proposer != "" credits fee outputs.
func (m *RM) apply(tx *pb.Transaction, name, proposer string) {
	for _, in := range tx.TxInputs {
		k := outKey(in.RefTxid, in.RefOffset)
		delete(m.utxo, k)
		m.spentBy[k] = name
	}
	for off, o := range tx.TxOutputs {
		if new(big.Int).SetBytes(o.Amount).Sign() == 0 {
			continue
		}
		owner := string(o.ToAddr)
		if owner == "$" {
			if proposer == "" {
				continue
			}
			owner = proposer
			m.utxo[outKey(tx.Txid, int32(off))] = rmOut{owner: owner, amount: o.Amount, frozen: 0}
			continue
		}
		m.utxo[outKey(tx.Txid, int32(off))] = rmOut{owner: owner, amount: o.Amount, frozen: o.FrozenHeight}
	}
	for off, o := range tx.TxOutputsExt {
		if o.Bucket == "$transient" {
			continue
		}
		m.version[o.Bucket+"/"+string(o.Key)] = outKey(tx.Txid, int32(off))
	}
	m.applied[string(tx.Txid)] = true
}

// buildRM computes the reference model of "chain genesis..ptr plus pool" in an
// order-independent way (created minus spent; the unsuperseded writer of each
// key) and reports the first violation of exclusivity: an output with two
// spenders, a key version with two superseding writers, a transaction applied twice.
func buildRM(i *Inst, ptr string, pool []*pb.Transaction) (*RM, string) {
	m := newRM()
	conflict := ""
	note := func(f string, a ...interface{}) {
		if conflict == "" {
			conflict = fmt.Sprintf(f, a...)
		}
	}
	type item struct {
		tx       *pb.Transaction
		where    string
		proposer string
	}
	var all []item
	for _, bn := range i.Chain(ptr) {
		blk := i.Block(bn)
		for _, t := range blk.Transactions {
			all = append(all, item{t, "block " + bn, string(blk.Proposer)})
		}
	}
	for _, t := range pool {
		all = append(all, item{t, "pool", ""})
	}
	superseded := map[string]string{} // bucket/key@version -> tx name
	for _, it := range all {
		t := it.tx
		name := i.Names.Of(t.Txid)
		if m.applied[string(t.Txid)] {
			kind := "chain"
			if it.where == "pool" {
				kind = "pool"
			}
			note("%s: tx %s applied twice (again in %s)", kind, name, it.where)
			continue
		}
		m.applied[string(t.Txid)] = true
		for _, in := range t.TxInputs {
			k := outKey(in.RefTxid, in.RefOffset)
			if other, ok := m.spentBy[k]; ok {
				kind := "chain"
				if it.where == "pool" {
					kind = "pool"
				}
				note("%s: output %s_%d is spent by %s and by %s (%s)", kind, i.Names.Of(in.RefTxid), in.RefOffset, other, name, it.where)
			}
			m.spentBy[k] = name
		}
		writes := map[string]bool{}
		for _, o := range t.TxOutputsExt {
			if o.Bucket != "$transient" {
				writes[o.Bucket+"/"+string(o.Key)] = true
			}
		}
		for _, in := range t.TxInputsExt {
			k := in.Bucket + "/" + string(in.Key)
			if !writes[k] {
				continue
			}
			v := ""
			if len(in.RefTxid) > 0 {
				v = outKey(in.RefTxid, in.RefOffset)
			}
			sk := k + "@" + v
			if other, ok := superseded[sk]; ok {
				kind := "chain"
				if it.where == "pool" {
					kind = "pool"
				}
				note("%s: version %s of key %s is superseded by %s and by %s (%s)", kind, i.Names.Replace(v), k, other, name, it.where)
			}
			superseded[sk] = name
		}
	}
	// existence: what a transaction consumes was created by a transaction of the
	// applied chain or of the pool (a pool transaction whose producer was undone
	// and that stayed behind cites something that is not, and never will be, current)
	created := map[string]bool{}
	written := map[string]bool{}
	chainSuperseded := map[string]string{}
	for _, it := range all {
		t := it.tx
		for off, o := range t.TxOutputs {
			if new(big.Int).SetBytes(o.Amount).Sign() == 0 || (string(o.ToAddr) == "$" && it.proposer == "") {
				continue
			}
			created[outKey(t.Txid, int32(off))] = true
		}
		for off, o := range t.TxOutputsExt {
			written[o.Bucket+"/"+string(o.Key)+"@"+outKey(t.Txid, int32(off))] = true
		}
		if it.where != "pool" {
			w := map[string]bool{}
			for _, o := range t.TxOutputsExt {
				w[o.Bucket+"/"+string(o.Key)] = true
			}
			for _, in := range t.TxInputsExt {
				k := in.Bucket + "/" + string(in.Key)
				if w[k] {
					v := ""
					if len(in.RefTxid) > 0 {
						v = outKey(in.RefTxid, in.RefOffset)
					}
					chainSuperseded[k+"@"+v] = i.Names.Of(t.Txid)
				}
			}
		}
	}
	for _, it := range all {
		t := it.tx
		kind := "chain"
		if it.where == "pool" {
			kind = "pool"
		}
		name := i.Names.Of(t.Txid)
		for _, in := range t.TxInputs {
			if !created[outKey(in.RefTxid, in.RefOffset)] {
				note("%s: dangling: tx %s (%s) spends output %s_%d which no applied or pending transaction created", kind, name, it.where, i.Names.Of(in.RefTxid), in.RefOffset)
			}
		}
		for _, in := range t.TxInputsExt {
			if in.Bucket == "$transient" {
				continue
			}
			k := in.Bucket + "/" + string(in.Key)
			v := ""
			if len(in.RefTxid) > 0 {
				v = outKey(in.RefTxid, in.RefOffset)
				if !written[k+"@"+v] {
					note("%s: dangling: tx %s (%s) cites version %s of key %s which no applied or pending transaction wrote", kind, name, it.where, i.Names.Replace(v), k)
				}
			}
			if by, ok := chainSuperseded[k+"@"+v]; ok && it.where == "pool" {
				note("pool: stale: tx %s cites version %q of key %s which the applied chain (%s) has overwritten", name, i.Names.Replace(v), k, by)
			}
		}
	}
	// created minus spent
	for _, it := range all {
		t := it.tx
		for off, o := range t.TxOutputs {
			if new(big.Int).SetBytes(o.Amount).Sign() == 0 {
				continue
			}
			k := outKey(t.Txid, int32(off))
			if _, spent := m.spentBy[k]; spent {
				continue
			}
			owner := string(o.ToAddr)
			frozen := o.FrozenHeight
			if owner == "$" {
				if it.proposer == "" {
					continue
				}
				owner, frozen = it.proposer, 0
			}
			m.utxo[k] = rmOut{owner: owner, amount: o.Amount, frozen: frozen}
		}
		for off, o := range t.TxOutputsExt {
			if o.Bucket == "$transient" {
				continue
			}
			k := o.Bucket + "/" + string(o.Key)
			v := outKey(t.Txid, int32(off))
			if _, sup := superseded[k+"@"+v]; !sup {
				m.version[k] = v
			}
		}
	}
	return m, conflict
}

// SpendOracle is the C03 oracle.
type SpendOracle struct {
	expect     string // expected verdict of the pending submit: "accept", "refuse", ""
	expectWhy  string
	viol       []core.Violation
	NoConverse bool
}

func (o *SpendOracle) Before(i *Inst, ev string) {
	o.expect = ""
	if !strings.HasPrefix(ev, "submit:") && !strings.HasPrefix(ev, "dotx:") {
		return
	}
	tn := ev[strings.IndexByte(ev, ':')+1:]
	tx := i.U.Tx(tn)
	pool, err := i.W.State.GetUnconfirmedTx(false)
	if err != nil {
		return
	}
	m, conflict := buildRM(i, i.Ptr(), pool)
	if conflict != "" {
		return // already inconsistent: Check reports it
	}
	why := m.current(tx, i.W.Ledger.GetMeta().TrunkHeight)
	switch {
	case i.U.Bad[tn]:
		o.expect, o.expectWhy = "refuse", "the transaction is invalid by construction"
	case m.applied[string(tx.Txid)]:
		o.expect, o.expectWhy = "refuse", "already pending or confirmed on the applied chain"
	case why != "":
		o.expect, o.expectWhy = "refuse", why
	default:
		o.expect, o.expectWhy = "accept", "every input is current"
	}
}

func (o *SpendOracle) After(i *Inst, ev string, obs string) {
	if o.expect == "" || (!strings.HasPrefix(ev, "submit:") && !strings.HasPrefix(ev, "dotx:")) {
		return
	}
	accepted := obs == "ok"
	tn := ev[strings.IndexByte(ev, ':')+1:]
	if accepted && o.expect == "refuse" {
		o.viol = append(o.viol, core.Violation{Key: "c03.admitted." + reasonKind(o.expectWhy) + ctx3(i, ev), Summary: fmt.Sprintf("tx %s was admitted although %s", tn, o.expectWhy)})
	}
	if !accepted && o.expect == "accept" && !o.NoConverse {
		o.viol = append(o.viol, core.Violation{Key: "c03.refused_current" + ctx3(i, ev), Summary: fmt.Sprintf("tx %s was refused (%s) although %s", tn, obs, o.expectWhy)})
	}
}

func reasonKind(why string) string {
	switch {
	case strings.HasPrefix(why, "stale version"):
		return "stale_version"
	case strings.HasPrefix(why, "output not unspent"):
		return "spent_output"
	case strings.HasPrefix(why, "already"):
		return "already_applied"
	case strings.HasPrefix(why, "frozen"):
		return "frozen"
	case strings.Contains(why, "invalid by construction"):
		return "invalid"
	}
	return strings.ReplaceAll(why, " ", "_")
}

// ctx3 classifies the history for C03 keys: what kind of event preceded.
func ctx3(i *Inst, ev string) string {
	c := ""
	if i.sawBlockFromPeer {
		c += ".after_peer_block"
	}
	if len(i.Failed) > 0 {
		c += ".after_failure"
	}
	if i.Restarts > 0 {
		c += ".after_restart"
	}
	return c
}

func (o *SpendOracle) Check(i *Inst, hist []string) []core.Violation {
	out := o.viol
	o.viol = nil
	pool, err := i.W.State.GetUnconfirmedTx(false)
	if err != nil {
		return append(out, core.Violation{Key: "c03.pool_error", Summary: "GetUnconfirmedTx: " + err.Error()})
	}
	ptr := i.Ptr()
	if strings.HasPrefix(ptr, "?") {
		return out
	}
	_, conflict := buildRM(i, ptr, pool)
	if conflict != "" {
		kind := "pool"
		if strings.HasPrefix(conflict, "chain") {
			kind = "chain"
		}
		sub := "conflict"
		if strings.Contains(conflict, "already applied") || strings.Contains(conflict, "applied twice") {
			sub = "reapplied"
		}
		if strings.Contains(conflict, ": dangling:") {
			sub = "dangling_input"
		}
		if strings.Contains(conflict, ": stale:") {
			sub = "stale_input"
		}
		out = append(out, core.Violation{Key: "c03." + kind + "_" + sub + ctx3(i, ""), Summary: "applied chain genesis.." + ptr + " plus pool is not conflict-free: " + conflict})
	}
	return out
}

// ---------------------------------------------------------------------------
// C05: failed operations leave no trace; live answers like reopened.

// FullObserve = state suite + ledger suite.
func FullObserve(i *Inst, w *world.World) map[string]string {
	o := Observe(i, w)
	for k, v := range world.LedgerObserve(w.Ledger, i.U, i.minedID, i.NameOf) {
		o["ledger:"+k] = v
	}
	return o
}

// TraceOracle is the C05 oracle.
type TraceOracle struct {
	before     map[string]string
	beforeDump string
	viol       []core.Violation
}

func (o *TraceOracle) Before(i *Inst, ev string) {
	o.before = nil
	if ev == "restart" || ev == "query" {
		return
	}
	o.before = FullObserve(i, i.W)
	o.beforeDump = CanonDump(i.W)
}

func isWalkLike(ev string) bool {
	ev = stripFail(ev)
	return ev == "sync" || ev == "dsync" || strings.HasPrefix(ev, "walk:") || strings.HasPrefix(ev, "dwalk:") || strings.HasPrefix(ev, "prune:") || strings.HasPrefix(ev, "trunc:") || ev == "mine"
}

func stripFail(ev string) string {
	if strings.HasPrefix(ev, "fail") {
		if j := strings.IndexByte(ev, '/'); j >= 0 {
			return ev[j+1:]
		}
	}
	return ev
}

func evKind(ev string) string {
	ev = stripFail(ev)
	if j := strings.IndexByte(ev, ':'); j >= 0 {
		return ev[:j]
	}
	return ev
}

func (o *TraceOracle) After(i *Inst, ev string, obs string) {
	if o.before == nil {
		return
	}
	if strings.HasPrefix(obs, "FAULT-SWALLOWED") {
		// an injected write error that the operation did not report: only judged
		// through the live-vs-reopened comparison
		return
	}
	failed := strings.HasPrefix(obs, "ERR") || strings.HasPrefix(obs, "refused")
	if !failed || isWalkLike(ev) {
		return
	}
	after := FullObserve(i, i.W)
	d := Diff(o.before, after)
	inj := ""
	if strings.HasPrefix(ev, "fail") {
		inj = ".injected_write_error"
	}
	if len(d) > 0 {
		o.viol = append(o.viol, core.Violation{Key: "c05.trace." + evKind(ev) + "." + diffKind(d) + inj, Summary: fmt.Sprintf("%s reported failure (%s) but observations changed: %s", ev, obs, strings.Join(head(d, 4), " | "))})
	} else if dump := CanonDump(i.W); dump != o.beforeDump {
		o.viol = append(o.viol, core.Violation{Key: "c05.trace_storage." + evKind(ev) + inj, Summary: fmt.Sprintf("%s reported failure (%s) but the stored data changed", ev, obs)})
	}
}

func (o *TraceOracle) Check(i *Inst, hist []string) []core.Violation {
	out := o.viol
	o.viol = nil
	r, err := i.W.Reopened()
	if err != nil {
		return append(out, core.Violation{Key: "c05.reopen_failed", Summary: "cannot reopen a copy of the stores: " + err.Error()})
	}
	defer r.Drop()
	live := FullObserve(i, i.W)
	re := FullObserve(i, r)
	if d := Diff(live, re); len(d) > 0 {
		last := ""
		if len(hist) > 0 {
			last = evKind(hist[len(hist)-1])
		}
		failedLast := len(hist) > 0 && i.Failed[hist[len(hist)-1]]
		k := "c05.live_vs_reopened." + diffKind(d)
		if failedLast {
			k += ".after_failed_" + last
			if strings.HasPrefix(hist[len(hist)-1], "fail") {
				k += ".injected_write_error"
			}
		} else if len(i.Failed) > 0 {
			k += ".after_failure"
		}
		out = append(out, core.Violation{Key: k, Summary: "the running node answers differently from one reopened on a copy of its data: " + strings.Join(head(d, 4), " | "),
			Expected: "answers of the reopened instance", Observed: strings.Join(head(d, 10), " | ")})
	}
	return out
}

// ---------------------------------------------------------------------------
// C17: finality window.

// FinalityOracle is the C17 oracle.
type FinalityOracle struct {
	maxApplied int64 // max over blocks ever applied of height
	started    bool
	ptrBefore  string
	irrBefore  int64
	viol       []core.Violation
}

func (o *FinalityOracle) Before(i *Inst, ev string) {
	o.ptrBefore = i.Ptr()
	o.irrBefore = i.W.State.GetMeta().IrreversibleBlockHeight
}

func (o *FinalityOracle) After(i *Inst, ev string, obs string) {
	ptr := i.Ptr()
	w := int64(i.U.Cfg.Window)
	irr := i.W.State.GetMeta().IrreversibleBlockHeight
	if strings.HasPrefix(ptr, "?") || strings.HasPrefix(o.ptrBefore, "?") {
		return
	}
	// blocks applied by this event: the todo part of the path ptrBefore -> ptr
	_, todo := refUndoTodoInst(i, o.ptrBefore, ptr)
	for _, b := range todo {
		if i.Height[b] > o.maxApplied {
			o.maxApplied = i.Height[b]
		}
	}
	kind := evKind(ev)
	if kind == "prune" {
		return
	}
	if irr < o.irrBefore && i.Pruned == 0 {
		o.viol = append(o.viol, core.Violation{Key: "c17.decreased." + kind, Summary: fmt.Sprintf("%s (%s) lowered the irreversible height from %d to %d", ev, obs, o.irrBefore, irr)})
	}
	// no non-prune walk may end on a chain that excludes a block at or below the irreversible height
	if w > 0 && i.Pruned == 0 {
		before := i.Chain(o.ptrBefore)
		after := map[string]bool{}
		for _, b := range i.Chain(ptr) {
			after[b] = true
		}
		for _, b := range before {
			if i.Height[b] <= o.irrBefore && !after[b] {
				o.viol = append(o.viol, core.Violation{Key: "c17.undone_irreversible." + kind, Summary: fmt.Sprintf("%s (%s) moved the state from %s to %s, off block %s at height %d <= irreversible height %d", ev, obs, o.ptrBefore, ptr, b, i.Height[b], o.irrBefore)})
				break
			}
		}
	}
}

func refUndoTodoInst(i *Inst, x, y string) (undo, todo []string) {
	anc := map[string]bool{}
	for n := x; n != ""; n = i.Parent[n] {
		anc[n] = true
	}
	lca := ""
	for n := y; n != ""; n = i.Parent[n] {
		if anc[n] {
			lca = n
			break
		}
	}
	for n := x; n != lca; n = i.Parent[n] {
		undo = append(undo, n)
	}
	for n := y; n != lca; n = i.Parent[n] {
		todo = append(todo, n)
	}
	return
}

func (o *FinalityOracle) Check(i *Inst, hist []string) []core.Violation {
	out := o.viol
	o.viol = nil
	w := int64(i.U.Cfg.Window)
	m := i.W.State.GetMeta()
	if m.IrreversibleSlideWindow != w {
		out = append(out, core.Violation{Key: "c17.window", Summary: fmt.Sprintf("slide window reported %d, genesis says %d", m.IrreversibleSlideWindow, w)})
	}
	if i.Pruned == 0 {
		want := int64(0)
		if w > 0 && o.maxApplied-w > 0 {
			want = o.maxApplied - w
		}
		if m.IrreversibleBlockHeight != want {
			k := "c17.height_formula"
			if len(i.Failed) > 0 {
				k += ".after_failure"
			}
			out = append(out, core.Violation{Key: k, Summary: fmt.Sprintf("irreversible height %d, expected max(0, %d - %d) = %d", m.IrreversibleBlockHeight, o.maxApplied, w, want)})
		}
	}
	r, err := i.W.Reopened()
	if err != nil {
		return append(out, core.Violation{Key: "c17.reopen_failed", Summary: err.Error()})
	}
	defer r.Drop()
	rm := r.State.GetMeta()
	if rm.IrreversibleBlockHeight != m.IrreversibleBlockHeight || rm.IrreversibleSlideWindow != m.IrreversibleSlideWindow {
		k := "c17.restart_differs"
		if len(i.Failed) > 0 {
			k += ".after_failure"
		}
		out = append(out, core.Violation{Key: k, Summary: fmt.Sprintf("running node reports height %d window %d, reopened node height %d window %d", m.IrreversibleBlockHeight, m.IrreversibleSlideWindow, rm.IrreversibleBlockHeight, rm.IrreversibleSlideWindow)})
	}
	return out
}

// ---------------------------------------------------------------------------
// C18: snapshot reads.

// SnapshotOracle records the live reader's answers when a block is the tip
// (pool empty) and later compares every snapshot with the record.
type SnapshotOracle struct {
	rec  map[string]map[string]string // block -> key -> "value@version"
	viol []core.Violation
}

// referenceAnswers is what the live reader returns on a fresh node that received
// exactly the chain genesis..bn and walked to bn: the oracle's "when B was the
// tip", as a function of B alone (the node under test may never have rested at
// B with an empty pool, and which histories did is not part of the state key).
// Memoised per universe and block id; nil when a fresh node refuses the chain.
var (
	refAnsMu sync.Mutex
	refAns   = map[string]map[string]string{}
)

func referenceAnswers(i *Inst, bn string) map[string]string {
	key := i.U.Name + "/" + string(i.ID(bn))
	refAnsMu.Lock()
	a, ok := refAns[key]
	refAnsMu.Unlock()
	if ok {
		return a
	}
	var out map[string]string
	func() {
		r := i.U.NewWorld()
		defer r.Drop()
		defer func() {
			r.State.Close()
			r.Ledger.Close()
		}()
		for _, n := range i.Chain(bn) {
			if n == "g" {
				continue
			}
			if ok, _ := r.Recv(i.Block(n)); !ok {
				return
			}
		}
		if bn != "g" {
			err := r.State.Walk(i.ID(bn), false)
			vhook.Drain()
			if err != nil {
				return
			}
		}
		out = liveAnswersOn(i, r)
	}()
	refAnsMu.Lock()
	refAns[key] = out
	refAnsMu.Unlock()
	return out
}

func liveAnswers(i *Inst) map[string]string { return liveAnswersOn(i, i.W) }

func liveAnswersOn(i *Inst, w *world.World) map[string]string {
	out := map[string]string{}
	rd := w.State.CreateXMReader()
	for _, k := range KVKeys {
		v, err := rd.Get(world.VKVBucket, []byte(k))
		if err != nil {
			out[k] = "ERR " + err.Error()
		} else {
			out[k] = fmt.Sprintf("%q@%s_%d", v.GetPureData().GetValue(), i.Names.Of(v.RefTxid), v.RefOffset)
		}
	}
	return out
}

func (o *SnapshotOracle) Before(i *Inst, ev string) {}

func (o *SnapshotOracle) After(i *Inst, ev string, obs string) {
	// nothing: the oracle must not look at the pool between events (GetUnconfirmedTx re-sorts the
	// pool and refreshes counters a stale copy of which the code under test may rely on)
}

func (o *SnapshotOracle) Check(i *Inst, hist []string) []core.Violation {
	var out []core.Violation
	ptr := i.Ptr()
	if strings.HasPrefix(ptr, "?") || ptr != i.LedgerTip() {
		return nil // snapshots are defined for main-chain blocks up to the tip the state is at
	}
	if o.rec == nil {
		o.rec = map[string]map[string]string{}
	}
	// the tip snapshot first, before this oracle asks anything else of the node: a client reads it
	// right after the last event, not after a pool query
	type tipAns struct {
		v   string
		err error
	}
	var tipRead map[string]tipAns
	var tipErr error
	if tr, err := i.W.State.GetTipXMSnapshotReader(); err != nil {
		tipErr = err
	} else {
		tipRead = map[string]tipAns{}
		for _, k := range KVKeys {
			bv, err := tr.Get(world.VKVBucket, []byte(k))
			tipRead[k] = tipAns{fmt.Sprintf("%q", bv), err}
		}
	}
	chainNames := i.Chain(ptr)
	sort.Strings(chainNames)
	for _, bn := range chainNames {
		rec := referenceAnswers(i, bn)
		if rec == nil {
			var ok bool
			if rec, ok = o.rec[bn]; !ok {
				continue
			}
		}
		snap, err := i.W.State.CreateSnapshot(i.ID(bn))
		sr, err2 := i.W.State.CreateXMSnapshotReader(i.ID(bn))
		if err != nil || err2 != nil {
			out = append(out, core.Violation{Key: "c18.create_failed", Summary: fmt.Sprintf("cannot create a snapshot at main-chain block %s: %v %v", bn, err, err2)})
			continue
		}
		for _, k := range KVKeys {
			want := rec[k]
			v, err := snap.Get(world.VKVBucket, []byte(k))
			got := ""
			if err != nil {
				got = "ERR " + err.Error()
			} else {
				got = fmt.Sprintf("%q@%s_%d", v.GetPureData().GetValue(), i.Names.Of(v.RefTxid), v.RefOffset)
			}
			if got != want {
				out = append(out, core.Violation{Key: "c18.snapshot_differs" + poolCtx(i), Summary: fmt.Sprintf("CreateSnapshot(%s).Get(%s)=%s, the live reader returned %s when %s was the tip (state at %s, pool %v)", bn, k, got, want, bn, ptr, i.PoolNames())})
			}
			bv, err := sr.Get(world.VKVBucket, []byte(k))
			gotv := fmt.Sprintf("%q", bv)
			if err != nil {
				gotv = "ERR " + err.Error()
			}
			wantv := want
			if j := strings.LastIndex(want, "@"); j >= 0 {
				wantv = want[:j]
			}
			if gotv != wantv {
				out = append(out, core.Violation{Key: "c18.snapshot_reader_differs" + poolCtx(i), Summary: fmt.Sprintf("CreateXMSnapshotReader(%s).Get(%s)=%s, the live reader returned %s when %s was the tip (state at %s, pool %v)", bn, k, gotv, wantv, bn, ptr, i.PoolNames())})
			}
		}
	}
	// the tip snapshot never exposes pending writes
	rec := referenceAnswers(i, ptr)
	if rec == nil {
		rec = o.rec[ptr]
	}
	if rec != nil {
		if tipErr != nil {
			out = append(out, core.Violation{Key: "c18.tip_create_failed", Summary: tipErr.Error()})
		} else {
			for _, k := range KVKeys {
				gotv := tipRead[k].v
				if tipRead[k].err != nil {
					gotv = "ERR " + tipRead[k].err.Error()
				}
				wantv := rec[k]
				if j := strings.LastIndex(wantv, "@"); j >= 0 {
					wantv = wantv[:j]
				}
				if gotv != wantv {
					out = append(out, core.Violation{Key: "c18.tip_snapshot_differs" + poolCtx(i), Summary: fmt.Sprintf("GetTipXMSnapshotReader().Get(%s)=%s with pool %v, confirmed value at tip %s is %s", k, gotv, i.PoolNames(), ptr, wantv)})
				}
			}
		}
	}
	return out
}

func poolCtx(i *Inst) string {
	if len(i.PoolNames()) > 0 {
		return ".with_pending"
	}
	return ""
}

// ---------------------------------------------------------------------------
// C06: crash consistency at every storage-write boundary.

// CrashOracle enumerates, for every explored transition, every prefix of the
// storage writes the event issued (across both databases), reopens ledger and
// state on that image and checks C04 / C01 / C02 and the final synchronisation.
type CrashOracle struct {
	base   map[string]map[string][]byte
	root   string
	viol   []core.Violation
	active bool
}

// CrashStats counts what the crash oracle judged (process-wide, all scenarios).
var CrashStats struct {
	Events    int64 // transitions whose write log was enumerated
	Writes    int64 // storage writes (batches) those transitions issued
	Images    int64 // crash images reopened and judged (every prefix, 0..len)
	MidImages int64 // of these, strictly inside an event (0 < n < len): the non-trivial ones
	distinct  sync.Map
	Distinct  int64 // distinct non-trivial images: digest of (event kind, write prefix with store names normalised)
}

func noteMidImage(kind, root string, log []vkv.Write, n int) {
	h := sha256.New()
	fmt.Fprintf(h, "%s|%d|", kind, n)
	for _, w := range log[:n] {
		fmt.Fprintf(h, "%s|%v|", strings.TrimPrefix(w.Store, root), w.Batch)
		for _, op := range w.Ops {
			fmt.Fprintf(h, "%v|", op)
		}
	}
	var d [32]byte
	copy(d[:], h.Sum(nil))
	if _, dup := CrashStats.distinct.LoadOrStore(d, struct{}{}); !dup {
		atomic.AddInt64(&CrashStats.Distinct, 1)
	}
}

func (o *CrashOracle) Before(i *Inst, ev string) {
	// only the transition that ends this execution: the replayed prefix was
	// judged when it was the end of its own history
	o.active = i.lastEvent(false)
	if !o.active {
		return
	}
	o.base = i.W.Space.Snapshot()
	o.root = i.W.Space.Root()
	i.W.Space.StartLog()
}

func (o *CrashOracle) After(i *Inst, ev string, obs string) {
	if !o.active {
		return
	}
	log := i.W.Space.Log()
	if ev == "restart" || ev == "query" {
		return
	}
	atomic.AddInt64(&CrashStats.Events, 1)
	atomic.AddInt64(&CrashStats.Writes, int64(len(log)))
	for n := 0; n <= len(log); n++ {
		// n == len(log): the complete image (a crash right after the last write) is judged too
		img := vkvFromImage(o.root, o.base, log, n)
		atomic.AddInt64(&CrashStats.Images, 1)
		if n > 0 && n < len(log) {
			atomic.AddInt64(&CrashStats.MidImages, 1)
			noteMidImage(evKind(ev), o.root, log, n)
		}
		for _, v := range checkImage(i, img) {
			v.Key += "." + evKind(ev)
			v.Summary = fmt.Sprintf("crash after write %d of %d during %s (%s): %s", n, len(log), ev, describeWrites(log, n), v.Summary)
			o.viol = append(o.viol, v)
		}
	}
}

func (o *CrashOracle) Check(i *Inst, hist []string) []core.Violation {
	out := o.viol
	o.viol = nil
	return out
}

// SerialOrder orders pool transaction names so that every transaction comes
// after the producers of what it consumes and before any transaction that
// overwrites a key version it only read. cyclic reports that no such order exists.
func SerialOrder(i *Inst, pool []string) (order []string, cyclic bool) {
	txs := map[string]*pb.Transaction{}
	for _, n := range pool {
		if strings.HasPrefix(n, "?") || strings.HasPrefix(n, "ERR") {
			return pool, false
		}
		txs[n] = i.U.Tx(n)
	}
	byID := map[string]string{}
	for n, t := range txs {
		byID[string(t.Txid)] = n
	}
	edges := map[string]map[string]bool{} // a -> b : a before b
	add := func(a, b string) {
		if a == b {
			return
		}
		if edges[a] == nil {
			edges[a] = map[string]bool{}
		}
		edges[a][b] = true
	}
	for n, t := range txs {
		writes := map[string]bool{}
		for _, o := range t.TxOutputsExt {
			writes[o.Bucket+"/"+string(o.Key)] = true
		}
		for _, in := range t.TxInputs {
			if p, ok := byID[string(in.RefTxid)]; ok {
				add(p, n)
			}
		}
		for _, in := range t.TxInputsExt {
			if p, ok := byID[string(in.RefTxid)]; ok {
				add(p, n)
			}
			k := in.Bucket + "/" + string(in.Key)
			if writes[k] {
				continue
			}
			// n only read k@v: every other tx superseding that same version comes after n
			for m, t2 := range txs {
				if m == n {
					continue
				}
				for _, in2 := range t2.TxInputsExt {
					if in2.Bucket == in.Bucket && bytes.Equal(in2.Key, in.Key) && bytes.Equal(in2.RefTxid, in.RefTxid) && in2.RefOffset == in.RefOffset {
						w2 := false
						for _, o2 := range t2.TxOutputsExt {
							if o2.Bucket == in.Bucket && bytes.Equal(o2.Key, in.Key) {
								w2 = true
							}
						}
						if w2 {
							add(n, m)
						}
					}
				}
			}
		}
	}
	// Kahn, ties by name
	indeg := map[string]int{}
	for n := range txs {
		indeg[n] = 0
	}
	for _, bs := range edges {
		for b := range bs {
			indeg[b]++
		}
	}
	names := make([]string, 0, len(txs))
	for n := range txs {
		names = append(names, n)
	}
	sort.Strings(names)
	done := map[string]bool{}
	for len(order) < len(names) {
		progressed := false
		for _, n := range names {
			if done[n] || indeg[n] != 0 {
				continue
			}
			done[n] = true
			order = append(order, n)
			for b := range edges[n] {
				indeg[b]--
			}
			progressed = true
			break
		}
		if !progressed {
			return pool, true
		}
	}
	return order, false
}
