package chainprops

import (
	"encoding/json"
	"verif/core"
	"verif/props/chain"
)

func c01Scenarios(tier core.Tier) []scenario {
	d := 0
	if tier == core.Thorough {
		d = 2
	}
	orcs := func() []chain.Oracle { return []chain.Oracle{chain.PureOracle{}} }
	return []scenario{
		{Name: "c01.kv", Universe: "U-kv", Depth: 6 + d, Orcs: orcs,
			Menu: chain.Menu{Recv: true, Sync: true, WalkSome: true, Play: true, Restart: true, Submit: []string{"pW1", "pR"}, Mine: 1, Blocks: []string{"k1", "k2", "k3", "k4", "j2", "j3"}}},
		{Name: "c01.kv.del", Universe: "U-kv", Depth: 6 + d, Orcs: orcs,
			Menu: chain.Menu{Recv: true, Sync: true, WalkSome: true, Play: true, Submit: []string{"pW1"}, Mine: 1, Blocks: []string{"k1", "kd2", "k2", "k3"}}},
		{Name: "c01.amt", Universe: "U-amt", Depth: 6 + d, Orcs: orcs,
			Menu: chain.Menu{Recv: true, Sync: true, WalkSome: true, Play: true, Restart: true, Submit: []string{"sA"}, Mine: 1}},
		{Name: "c01.3way", Universe: "U-3way-honest", Depth: 5 + d, Orcs: orcs,
			Menu: chain.Menu{Recv: true, Sync: true, WalkAll: true, Play: true, Restart: true}},
		// what the node had pending when a block arrived must not show in the state at that block: a pending
		// parent with two pending children, and a peer block (a1) that conflicts with the parent
		{Name: "c01.family", Universe: "U-3way-honest", Depth: 5 + d, Orcs: orcs,
			Menu: chain.Menu{Recv: true, Sync: true, Play: true, Restart: true, Submit: []string{"pP", "pC1", "pC2"}, Blocks: []string{"a1", "b1"}}},
	}
}

func c02Scenarios(tier core.Tier) []scenario {
	d := 0
	if tier == core.Thorough {
		d = 2
	}
	orcs := func() []chain.Oracle { return []chain.Oracle{chain.ConservationOracle{}} }
	return []scenario{
		{Name: "c02.amt", Universe: "U-amt", Depth: 5 + d, Orcs: orcs,
			Menu: chain.Menu{Recv: true, Sync: true, WalkSome: true, Play: true, Restart: true, Submit: []string{"sA", "sA2", "sUnbalanced", "sFrozen", "sPadTrail", "sPadLead"}, Mine: 1}},
		{Name: "c02.3way", Universe: "U-3way", Depth: 5 + d, Orcs: orcs,
			Menu: chain.Menu{Recv: true, Sync: true, WalkSome: true, Play: true, Restart: true, Mine: 1}},
		{Name: "c02.family", Universe: "U-3way-honest", Depth: 6 + d, Orcs: orcs,
			Menu: chain.Menu{Recv: true, Sync: true, Play: true, Submit: []string{"pP", "pC1", "pC2"}, Mine: 1, Blocks: []string{"a1", "b1"}}},
		{Name: "c02.fee", Universe: "U-3way-honest", Depth: 6 + d, Orcs: orcs,
			Menu: chain.Menu{Recv: true, Sync: true, WalkSome: true, KeyEvents: true, Submit: []string{"sFee"}, Blocks: []string{"a1", "a2", "d2"}}},
		{Name: "c02.kv", Universe: "U-kv", Depth: 5 + d, Orcs: orcs,
			Menu: chain.Menu{Recv: true, Sync: true, WalkSome: true, Submit: []string{"pW1", "pW2"}, Mine: 1, Blocks: []string{"k1", "k2", "k3", "k4", "j2", "j3"}}},
	}
}

func shapeLen(t core.Tier) int {
	if t == core.Thorough {
		return 3
	}
	return 2
}

// withShapes routes replay files of the shape grid to it.
func withShapes(which string, f func(json.RawMessage) (bool, string, error)) func(json.RawMessage) (bool, string, error) {
	return func(c json.RawMessage) (bool, string, error) {
		var sc shapeCase
		if json.Unmarshal(c, &sc) == nil && len(sc.ShapeGrid) > 0 {
			return replayShape(sc, which)
		}
		return f(c)
	}
}

func init() {
	core.Register(&core.Check{ID: "C01", Run: func(t core.Tier) *core.Report {
		rep := core.NewReport("C01", t, "model_checking")
		runScenarios(rep, c01Scenarios(t))
		if !rep.HitDeadline() {
			shapeGrid(rep, "C01", shapeLen(t))
		}
		return rep
	}, Replay: withShapes("C01", replayScenario(append(c01Scenarios(core.Quick), c01Scenarios(core.Thorough)...)))})
	core.Register(&core.Check{ID: "C02", Run: func(t core.Tier) *core.Report {
		rep := core.NewReport("C02", t, "model_checking")
		runScenarios(rep, c02Scenarios(t))
		if !rep.HitDeadline() {
			shapeGrid(rep, "C02", shapeLen(t))
		}
		return rep
	}, Replay: withShapes("C02", replayScenario(append(c02Scenarios(core.Quick), c02Scenarios(core.Thorough)...)))})
}
