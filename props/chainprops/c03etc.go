package chainprops

import (
	"fmt"

	"verif/core"
	"verif/props/chain"
	"verif/world"
)

func init() {
	for _, w := range []int{1, 2, 3} {
		w := w
		extraUniverses[fmt.Sprintf("U-3way-honest-w%d", w)] = func() *world.Universe { return world.Universe3WayW(false, w) }
		extraUniverses[fmt.Sprintf("U-3way-w%d", w)] = func() *world.Universe { return world.Universe3WayW(true, w) }
	}
	moreScenarios = append(moreScenarios, c03Scenarios, c05Scenarios, c17Scenarios, c18Scenarios)
	reg := func(id string, f func(core.Tier) []scenario) {
		core.Register(&core.Check{ID: id, Run: func(t core.Tier) *core.Report {
			rep := core.NewReport(id, t, "model_checking")
			runScenarios(rep, f(t))
			return rep
		}, Replay: replayScenario(append(f(core.Quick), f(core.Thorough)...))})
	}
	reg("C03", c03Scenarios)
	reg("C05", c05Scenarios)
	reg("C17", c17Scenarios)
	reg("C18", c18Scenarios)
}

func dd(t core.Tier) int {
	if t == core.Thorough {
		return 2
	}
	return 0
}

func c03Scenarios(tier core.Tier) []scenario {
	d := dd(tier)
	orcs := func() []chain.Oracle { return []chain.Oracle{&chain.SpendOracle{}} }
	return []scenario{
		{Name: "c03.kv", Universe: "U-kv", Depth: 5 + d, Orcs: orcs,
			Menu: chain.Menu{Recv: true, Sync: true, Play: true, WalkSome: true, Submit: []string{"pW1", "pW2", "pR", "kvB", "kvF"}, Mine: 1, Blocks: []string{"k1", "k2", "j2", "j3"}}},
		{Name: "c03.kv.del", Universe: "U-kv", Depth: 5 + d, Orcs: orcs,
			Menu: chain.Menu{Recv: true, Sync: true, Play: true, WalkSome: true, Submit: []string{"pW1", "pRe"}, Mine: 1, Blocks: []string{"k1", "kd2", "kdx2", "k2"}}},
		{Name: "c03.kv.blind", Universe: "U-kv", Depth: 6 + d, Orcs: orcs,
			Menu: chain.Menu{Recv: true, Sync: true, Submit: []string{"pBlind", "pW1"}, DoTx: []string{"pBlind", "pW1", "pR"}, Mine: 1, Blocks: []string{"k1", "k2", "k3"}}},
		{Name: "c03.amt", Universe: "U-amt", Depth: 5 + d, Orcs: orcs,
			Menu: chain.Menu{Recv: true, Sync: true, Play: true, WalkSome: true, Submit: []string{"sA", "sA2", "sFrozen", "sUnbalanced", "tM", "sPadTrail", "sPadLead"}, Mine: 1, Restart: true, Blocks: []string{"x1", "x2", "y1", "y2"}}},
		{Name: "c03.3way", Universe: "U-3way", Depth: 5 + d, Orcs: orcs,
			Menu: chain.Menu{Recv: true, Sync: true, Play: true, WalkSome: true, Submit: []string{"tS", "tA2", "tD2", "tB2"}, Mine: 1, Blocks: []string{"a1", "a2", "d2", "b1", "b2", "dup3"}}},
		// a peer block that spends one output twice, met with an empty and with a busy pool
		{Name: "c03.inblock", Universe: "U-3way", Depth: 4 + d, Orcs: orcs,
			Menu: chain.Menu{Recv: true, Sync: true, Play: true, Submit: []string{"tS", "tB2"}, Mine: 1, Restart: true, Blocks: []string{"a1", "ds2", "a2", "b1"}}},
		{Name: "c03.fee", Universe: "U-3way-honest", Depth: 6 + d, Orcs: orcs,
			Menu: chain.Menu{Recv: true, Sync: true, WalkSome: true, KeyEvents: true, Submit: []string{"sFee"}, Blocks: []string{"a1", "a2", "d2"}}},
		{Name: "c03.family", Universe: "U-3way-honest", Depth: 6 + d, Orcs: orcs,
			Menu: chain.Menu{Recv: true, Sync: true, Play: true, Submit: []string{"pP", "pC1", "pC2"}, Mine: 1, Blocks: []string{"a1", "b1"}}},
		// pool transactions linked through key versions only; a peer block undoes the writer
		{Name: "c03.pooldep", Universe: "U-kv-pool", Depth: 7 + d, Orcs: orcs,
			Menu: chain.Menu{Recv: true, Sync: true, Play: true, Submit: []string{"pP", "rC", "rD", "wD"}, Mine: 1}},
		{Name: "c03.defer", Universe: "U-3way", Depth: 5 + d, MaxCost: 1, Orcs: orcs,
			Menu: chain.Menu{Recv: true, Sync: true, Defer: true, Submit: []string{"tS", "tA2", "tD2"}, Mine: 1, Blocks: []string{"a1", "a2", "b1", "b2"}}},
	}
}

func c05Scenarios(tier core.Tier) []scenario {
	d := dd(tier)
	orcs := func() []chain.Oracle { return []chain.Oracle{&chain.TraceOracle{}} }
	bad := []string{"a1", "a2", "b1", "b2", "cc2", "dup3", "o2", "bv2"}
	flt := []string{"a1", "b1", "b2"}
	if tier == core.Thorough {
		bad = append(bad, "a3", "d2", "b3")
		flt = append(flt, "a2", "b3")
	}
	return []scenario{
		{Name: "c05.bad", Universe: "U-3way", Depth: 5 + d, Orcs: orcs,
			Menu: chain.Menu{Recv: true, Sync: true, Play: true, Submit: []string{"tS", "tA2", "tD2"}, Mine: 1, Query: true, Blocks: bad}},
		// storage faults at the k-th write of an event; depth 6 reaches a fork switch
		// under fault (recv a1, sync, recv b1, recv b2, failK/sync: undo + two replays)
		{Name: "c05.fault", Universe: "U-3way-honest", Depth: 6 + d, MaxCost: 1 + d/2, Orcs: orcs,
			Menu: chain.Menu{Recv: true, Sync: true, Play: true, Submit: []string{"tS"}, Mine: 1, Fail: 5, Blocks: flt}},
		// truncations (side branches reaching above the target) with queries in between
		{Name: "c05.trunc", Universe: "U-3way-honest", Depth: 6 + d, Orcs: orcs,
			Menu: chain.Menu{Recv: true, Sync: true, Truncate: true, Query: true, Blocks: []string{"a1", "a2", "a3", "b1", "b2", "d2"}}},
		// a slide window, restarts and storage faults: the committed / pending copies of the meta
		{Name: "c05.window", Universe: "U-3way-honest-w1", Depth: 5 + d, MaxCost: 1, Orcs: orcs,
			Menu: chain.Menu{Recv: true, Sync: true, Play: true, WalkSome: true, Restart: true, Fail: 3, Blocks: []string{"a1", "a2", "a3", "b1", "b2"}}},
		{Name: "c05.kv", Universe: "U-kv", Depth: 5 + d, Orcs: orcs,
			Menu: chain.Menu{Recv: true, Sync: true, Play: true, WalkSome: true, Submit: []string{"pW1", "pW2", "pR"}, Mine: 1, Blocks: []string{"k1", "k2", "j2"}}},
		{Name: "c05.amt", Universe: "U-amt", Depth: 4 + d, MaxCost: 1, Orcs: orcs,
			Menu: chain.Menu{Recv: true, Sync: true, Play: true, Submit: []string{"sA", "sA2", "sFrozen", "sUnbalanced"}, Mine: 1, Fail: 2, Blocks: []string{"x1", "x2"}}},
	}
}

func c17Scenarios(tier core.Tier) []scenario {
	d := dd(tier)
	orcs := func() []chain.Oracle { return []chain.Oracle{&chain.FinalityOracle{}} }
	var out []scenario
	windows, faultWindows := []string{"1", "2"}, []string{"1"}
	if tier == core.Thorough {
		windows, faultWindows = []string{"1", "2", "3"}, []string{"1", "2"}
	}
	for _, w := range windows {
		out = append(out, scenario{Name: "c17.w" + w, Universe: "U-3way-honest-w" + w, Depth: 6 + d, Orcs: orcs,
			Menu: chain.Menu{Recv: true, Sync: true, WalkAll: true, Play: true, Mine: 1, Restart: true, Blocks: []string{"a1", "a2", "a3", "b1", "b2", "b3", "d2"}}})
		// the miner's own way back: walk + ledger truncation (truncateForMiner), then a block through PlayForMiner
		out = append(out, scenario{Name: "c17.trunc.w" + w, Universe: "U-3way-honest-w" + w, Depth: 6 + d, Orcs: orcs,
			Menu: chain.Menu{Recv: true, Sync: true, Truncate: true, Mine: 2, Restart: true, Blocks: []string{"a1", "a2", "a3", "b1"}}})
	}
	// walks that stop part-way: a block the ledger took and the state machine
	// refuses (dup3 on a2, bv2 and cc2 on a1) in the middle of the range being synced
	for _, w := range []string{"1", "2"} {
		out = append(out, scenario{Name: "c17.bad.w" + w, Universe: "U-3way-w" + w, Depth: 5 + d, Orcs: orcs,
			Menu: chain.Menu{Recv: true, Sync: true, WalkAll: true, Restart: true, Blocks: []string{"a1", "a2", "dup3", "bv2", "bv3", "b1", "b2", "b3"}}})
	}
	// storage faults and restarts with a window: what a failed write leaves in the committed meta
	for _, w := range faultWindows {
		out = append(out, scenario{Name: "c17.fault.w" + w, Universe: "U-3way-honest-w" + w, Depth: 6 + d, MaxCost: 1, Orcs: orcs,
			Menu: chain.Menu{Recv: true, Sync: true, Play: true, WalkSome: true, Restart: true, Fail: 3, Blocks: []string{"a1", "a2", "a3", "b1", "b2"}}})
	}
	out = append(out, scenario{Name: "c17.w0", Universe: "U-3way-honest", Depth: 6 + d, Orcs: orcs,
		Menu: chain.Menu{Recv: true, Sync: true, WalkSome: true, Mine: 1, Restart: true, Blocks: []string{"a1", "a2", "a3", "b1", "b2", "b3"}}})
	out = append(out, scenario{Name: "c17.prune", Universe: "U-3way-honest-w1", Depth: 6 + d, Orcs: orcs,
		Menu: chain.Menu{Recv: true, Sync: true, WalkSome: true, Prune: true, Restart: true, Blocks: []string{"a1", "a2", "a3", "b1", "b2"}}})
	return out
}

func c18Scenarios(tier core.Tier) []scenario {
	d := dd(tier)
	orcs := func() []chain.Oracle { return []chain.Oracle{&chain.SnapshotOracle{}} }
	return []scenario{
		{Name: "c18.kv", Universe: "U-kv", Depth: 8 + d, Orcs: orcs,
			Menu: chain.Menu{Recv: true, Sync: true, WalkSome: true, Submit: []string{"pW1", "pR", "pBlind"}, Mine: 1, Blocks: []string{"k1", "k2", "k3", "k4", "j2", "j3"}}},
		{Name: "c18.kv.del", Universe: "U-kv", Depth: 7 + d, Orcs: orcs,
			Menu: chain.Menu{Recv: true, Sync: true, WalkSome: true, Submit: []string{"pW1"}, Mine: 1, Blocks: []string{"k1", "kd2", "k2", "k3"}}},
		// the state machine's own admission (State.DoTx without VerifyTx in front of it)
		{Name: "c18.kv.dotx", Universe: "U-kv", Depth: 7 + d, Orcs: orcs,
			Menu: chain.Menu{Recv: true, Sync: true, DoTx: []string{"pBlind", "pW1"}, Mine: 1, Blocks: []string{"k1", "k2", "k3"}}},
		// a writer confirmed on the losing branch and pending again on the winning one
		{Name: "c18.orphan", Universe: "U-kv-orphan", Depth: 8 + d, Orcs: orcs,
			Menu: chain.Menu{Recv: true, Sync: true, Submit: []string{"kvT"}, Mine: 1, Restart: true}},
		// a second delete of a deleted key that is rolled back; a writer at different heights on two branches
		{Name: "c18.deldel", Universe: "U-kv-deldel", Depth: 12 + d, Orcs: orcs,
			Menu: chain.Menu{Recv: true, Sync: true}},
		{Name: "c18.kv.restart", Universe: "U-kv", Depth: 7 + d, Orcs: orcs,
			Menu: chain.Menu{Recv: true, Sync: true, Restart: true, Submit: []string{"pW1"}, Mine: 1, Blocks: []string{"k1", "k2", "k3", "k4"}}},
	}
}

func c06Scenarios(tier core.Tier) []scenario {
	d := dd(tier)
	orcs := func() []chain.Oracle { return []chain.Oracle{&chain.CrashOracle{}} }
	return []scenario{
		{Name: "c06.3way", Universe: "U-3way-honest", Depth: 5 + d, Orcs: orcs,
			Menu: chain.Menu{Recv: true, Sync: true, Play: true, WalkSome: true, Submit: []string{"tS", "tA2", "tD2"}, Mine: 1, Truncate: true, Blocks: []string{"a1", "a2", "b1", "b2", "b3"}}},
		{Name: "c06.kv", Universe: "U-kv", Depth: 5 + d, Orcs: orcs,
			Menu: chain.Menu{Recv: true, Sync: true, Play: true, WalkSome: true, Submit: []string{"pW1", "pR"}, Mine: 1, Blocks: []string{"k1", "k2", "k3", "j2"}}},
		{Name: "c06.amt", Universe: "U-amt", Depth: 5 + d, Orcs: orcs,
			Menu: chain.Menu{Recv: true, Sync: true, Submit: []string{"sA", "sA2"}, Mine: 2, Truncate: true, Blocks: []string{"x1", "x2", "y1", "y2"}}},
		{Name: "c06.prune", Universe: "U-3way-honest-w1", Depth: 5 + d, Orcs: orcs,
			Menu: chain.Menu{Recv: true, Sync: true, WalkSome: true, Prune: true, Blocks: []string{"a1", "a2", "a3", "b1", "b2"}}},
	}
}

func init() {
	moreScenarios = append(moreScenarios, c06Scenarios)
	core.Register(&core.Check{ID: "C06", Run: func(t core.Tier) *core.Report {
		rep := core.NewReport("C06", t, "fault_enumeration")
		runScenarios(rep, c06Scenarios(t))
		cs := &chain.CrashStats
		rep.Set("evaluations", int(cs.Images))
		engineAtomicity(rep, t)
		rep.Set("distinct_nontrivial", int(cs.Distinct))
		rep.Set("rule", "cases = for every transition the explorer takes (every event of every explored history: block arrival, sync walk, walk to any block, play, submit, mine, truncate, prune), every prefix 0..n of the storage writes (single puts and atomic batches, across the ledger and the state database, in issue order) that the event made: the node is reopened on base image + prefix and judged (ledger structure, state = replay of its own chain, conservation, then synchronisation to the ledger tip). A case is non-trivial when the prefix ends strictly inside the event (0 < k < n: some of the event's writes are durable, the rest lost); distinct = distinct (event kind, normalised write prefix) among those. A write is atomic (leveldb batch / put granularity): torn batches are outside the model")
		rep.Set("crash_events_enumerated", int(cs.Events))
		rep.Set("storage_writes_logged", int(cs.Writes))
		rep.Set("crash_images_mid_event", int(cs.MidImages))
		return rep
	}, Replay: replayScenario(append(c06Scenarios(core.Quick), c06Scenarios(core.Thorough)...))})
}
