// Package chainprops registers the chain-level checks built on props/chain.
package chainprops

import (
	"encoding/json"
	"fmt"
	"sync"

	"github.com/xuperchain/xupercore/verifshim/vhook"

	"verif/core"
	"verif/engine/xplore"
	"verif/props/chain"
	"verif/world"
)

var (
	uniMu sync.Mutex
	unis  = map[string]*world.Universe{}
)

// universe returns the named universe (built once per process).
func universe(name string) *world.Universe {
	uniMu.Lock()
	defer uniMu.Unlock()
	if u, ok := unis[name]; ok {
		return u
	}
	var u *world.Universe
	switch name {
	case "U-3way":
		u = world.Universe3Way(true)
	case "U-3way-honest":
		u = world.Universe3Way(false)
	case "U-kv":
		u = world.UniverseKV()
	case "U-kv-pool":
		u = world.UniverseKVPool()
	case "U-kv-deldel":
		u = world.UniverseKVDelDel()
	case "U-kv-orphan":
		u = world.UniverseKVOrphan()
	case "U-amt":
		u = world.UniverseAmt()
	default:
		if b, ok := extraUniverses[name]; ok {
			u = b()
		} else {
			panic("unknown universe " + name)
		}
	}
	unis[name] = u
	return u
}

var extraUniverses = map[string]func() *world.Universe{}

// scenario is one exploration of a check.
type scenario struct {
	Name     string
	Universe string
	Menu     chain.Menu
	Depth    int
	MaxCost  int
	Orcs     func() []chain.Oracle
}

var scenarios = map[string]scenario{}

func (s scenario) newInst() xplore.Instance {
	return chain.New(universe(s.Universe), s.Menu, s.Orcs()...)
}

func cost(ev string) int {
	if len(ev) > 4 && ev[:4] == "fail" {
		return 1
	}
	if len(ev) > 1 && ev[0] == 'd' && (ev == "dsync" || (len(ev) > 5 && ev[:5] == "dwalk")) {
		return 1
	}
	return 0
}

// dropNoFire: a fault variant whose k-th write never came reaches exactly the
// state of the plain event, but would carry a spent deviation.
func dropNoFire(ev, obs string) bool {
	return len(ev) > 4 && ev[:4] == "fail" && len(obs) >= 6 && obs[:6] == "nofire"
}

// runScenarios explores every scenario and fills the report.
func runScenarios(rep *core.Report, scs []scenario) {
	world.Init()
	vhook.Capture()
	exh := true
	var bounds []string
	for _, s := range scs {
		scenarios[s.Name] = s
		cfg := xplore.Config{Name: s.Name, New: s.newInst, MaxDepth: s.Depth, Report: rep, Cost: cost, MaxCost: s.MaxCost, Drop: dropNoFire}
		st := xplore.Explore(cfg)
		st.Fill(rep, s.Name+".")
		if !st.Completed {
			exh = false
		}
		bounds = append(bounds, fmt.Sprintf("%s: universe %s, depth<=%d, deviations<=%d, states=%d, transitions=%d, completed=%v", s.Name, s.Universe, s.Depth, s.MaxCost, st.States, st.Transitions, st.Completed))
		if rep.HitDeadline() {
			exh = false
			break
		}
		// companion pass: histories are merged only if they are permutations of
		// each other (hidden cache content cannot be merged away), shallower
		if !s.Menu.KeyEvents {
			s2 := s
			s2.Menu.KeyEvents = true
			s2.Name = s.Name + "+events"
			s2.Depth = s.Depth - 1
			if rep.Tier == core.Quick && s2.Depth > 5 {
				s2.Depth = 5
			}
			if s2.Depth >= 3 {
				cfg2 := xplore.Config{Name: s2.Name, New: s2.newInst, MaxDepth: s2.Depth, Report: rep, Cost: cost, MaxCost: s2.MaxCost, Drop: dropNoFire}
				st2 := xplore.Explore(cfg2)
				st2.Fill(rep, s2.Name+".")
				if !st2.Completed {
					exh = false
				}
				bounds = append(bounds, fmt.Sprintf("%s: event-multiset keys, depth<=%d, states=%d, transitions=%d, completed=%v", s2.Name, s2.Depth, st2.States, st2.Transitions, st2.Completed))
				if rep.HitDeadline() {
					exh = false
					break
				}
			}
		}
	}
	rep.Set("bound", bounds)
	rep.Set("exhaustive", exh)
	rep.Assume("vkv in-memory engine behaves as goleveldb for the operations used (conformance test in setup)")
	rep.Assume("duplicate block submissions are filtered by ExistBlock as the node does before ConfirmBlock")
	rep.Assume("Walk's recovery goroutine runs right after Walk returns unless a deferred-drain deviation is explored")
}

// replayScenario replays a recorded history.
func replayScenario(all []scenario) func(c json.RawMessage) (bool, string, error) {
	return func(c json.RawMessage) (bool, string, error) {
		var cs struct {
			Scenario string   `json:"scenario"`
			Universe string   `json:"universe"`
			History  []string `json:"history"`
		}
		if err := json.Unmarshal(c, &cs); err != nil {
			return false, "", err
		}
		world.Init()
		vhook.Capture()
		for _, s := range all {
			if s.Universe == cs.Universe && (cs.Scenario == "" || cs.Scenario == s.Name) {
				_, viol := xplore.Replay(s.newInst, cs.History)
				if len(viol) > 0 {
					return true, viol[0].Key + ": " + viol[0].Summary, nil
				}
			}
		}
		return false, "history replayed without violation", nil
	}
}

// Trace replays events on a scenario and prints observations (debug aid).
func Trace(name string, hist []string) {
	world.Init()
	vhook.Capture()
	for _, f := range []func(core.Tier) []scenario{c01Scenarios, c02Scenarios} {
		for _, s := range f(core.Quick) {
			scenarios[s.Name] = s
		}
	}
	for _, f := range moreScenarios {
		for _, s := range f(core.Quick) {
			scenarios[s.Name] = s
		}
	}
	s, ok := scenarios[name]
	if !ok {
		fmt.Println("unknown scenario", name)
		return
	}
	inst := s.newInst().(*chain.Inst)
	for _, e := range hist {
		fmt.Printf("%-30s -> %s\n", e, inst.Apply(e))
		fmt.Printf("    ptr=%s tip=%s pool=%v\n", inst.Ptr(), inst.LedgerTip(), inst.PoolNames())
	}
	for _, v := range inst.Check(hist) {
		fmt.Println("VIOL", v.Key, v.Summary)
	}
	fmt.Println("enabled:", inst.Enabled())
}

var moreScenarios []func(core.Tier) []scenario
