package chainprops

import (
	"bytes"
	"fmt"
	"os"
	"path/filepath"

	"github.com/xuperchain/xupercore/lib/storage/kvdb"
	_ "github.com/xuperchain/xupercore/lib/storage/kvdb/leveldb"

	"verif/core"
	"verif/world"
)

// engineAtomicity is the part of C06 that binds the crash model to the real
// storage adapter (lib/storage/kvdb/leveldb/ldb_impl.go, which the node-level
// scenarios never execute: they run over the in-memory engine). The model says
// "a batch is atomic": nothing of a batch is in the database before Write, all
// of it after, and a batch that was filled but never written leaves nothing
// behind after the process is gone (close + reopen). Enumerated over a grid of
// batch shapes: every sequence of up to 3 operations with values of 1 B .. 5 MiB
// (up to 15 MiB per batch; thorough: .. 17 MiB, up to 51 MiB) and long batches of 10^1 .. 10^5 small operations,
// for Put / Delete / PutIfAbsent, checked after every queued operation.
func engineAtomicity(rep *core.Report, tier core.Tier) {
	dir := filepath.Join(world.ScratchDir(), fmt.Sprintf("ldb-atomic-%d", os.Getpid()))
	os.RemoveAll(dir)
	defer os.RemoveAll(dir)
	open := func() kvdb.Database {
		db, err := kvdb.CreateKVInstance(&kvdb.KVParameter{DBPath: dir, KVEngineType: "leveldb", StorageType: "single", MemCacheSize: 8, FileHandlersCacheSize: 16})
		if err != nil {
			core.HarnessError("C06 engine part: open leveldb: %v", err)
		}
		return db
	}
	db := open()
	defer func() { db.Close() }()
	sizes := []int{1, 2 << 20, 5 << 20}
	if tier == core.Thorough {
		sizes = []int{1, 64 << 10, 1 << 20, 3 << 20, 5 << 20, 9 << 20, 17 << 20}
	}
	blob := bytes.Repeat([]byte{'x'}, sizes[len(sizes)-1])
	batches, points, reopenings := 0, 0, 0
	bad := func(key, f string, a ...interface{}) {
		rep.Violation(core.Violation{Key: key, Summary: fmt.Sprintf(f, a...), Case: map[string]interface{}{"engine": "leveldb-batch", "what": fmt.Sprintf(f, a...)}})
	}
	// the database holds exactly `want` under the prefix "k"
	holds := func(want map[string]int) string {
		it := db.NewIteratorWithPrefix([]byte("k"))
		defer it.Release()
		got := map[string]int{}
		for it.Next() {
			got[string(it.Key())] = len(it.Value())
		}
		for k, n := range want {
			if g, ok := got[k]; !ok || g != n {
				return fmt.Sprintf("key %s: want %d bytes, present=%v with %d bytes", k, n, ok, g)
			}
		}
		for k := range got {
			if _, ok := want[k]; !ok {
				return fmt.Sprintf("key %s is in the database (%d bytes)", k, got[k])
			}
		}
		return ""
	}
	type op struct {
		kind string // put, del, pia
		key  string
		size int
	}
	runBatch := func(name string, ops []op, checkEvery int, crash bool) {
		batches++
		// base content: one committed key the batch deletes / overwrites
		base := map[string]int{"k-base": 3}
		db.Put([]byte("k-base"), []byte("old"))
		b := db.NewBatch()
		want := map[string]int{}
		for k, v := range base {
			want[k] = v
		}
		for n, o := range ops {
			switch o.kind {
			case "put":
				b.Put([]byte(o.key), blob[:o.size])
				want[o.key] = o.size
			case "del":
				b.Delete([]byte(o.key))
				delete(want, o.key)
			case "pia":
				if err := b.PutIfAbsent([]byte(o.key), blob[:o.size]); err == nil {
					want[o.key] = o.size
				}
			}
			if checkEvery > 0 && (n+1)%checkEvery == 0 || n == len(ops)-1 {
				points++
				if why := holds(base); why != "" {
					bad("c06.engine.batch_visible_before_write", "leveldb batch %s: after queueing %d of %d operations and before Write: %s", name, n+1, len(ops), why)
					break
				}
			}
		}
		if crash {
			// the process dies with the batch filled and never written
			reopenings++
			db.Close()
			db = open()
			if why := holds(base); why != "" {
				bad("c06.engine.unwritten_batch_survives_restart", "leveldb batch %s: filled, never written, database closed and reopened: %s", name, why)
			}
		} else {
			if err := b.Write(); err != nil {
				bad("c06.engine.write_failed", "leveldb batch %s: Write: %v", name, err)
			}
			points++
			if why := holds(want); why != "" {
				bad("c06.engine.batch_incomplete_after_write", "leveldb batch %s: after Write: %s", name, why)
			}
		}
		// clean up
		cl := db.NewBatch()
		it := db.NewIteratorWithPrefix([]byte("k"))
		for it.Next() {
			cl.Delete(append([]byte{}, it.Key()...))
		}
		it.Release()
		cl.Write()
	}
	kinds := []string{"put", "pia", "del"}
	var rec func(prefix []op)
	rec = func(prefix []op) {
		if len(prefix) > 0 {
			total := 0
			for _, o := range prefix {
				total += o.size
			}
			name := fmt.Sprint(prefix)
			runBatch(name, prefix, 1, false)
			if total >= 4<<20 || (len(prefix) == 3 && tier == core.Thorough) {
				runBatch(name+"+crash", prefix, 1, true)
			}
		}
		if len(prefix) == 3 {
			return
		}
		for _, k := range kinds {
			if k == "del" {
				rec(append(append([]op{}, prefix...), op{"del", "k-base", 0}))
				continue
			}
			for _, sz := range sizes {
				rec(append(append([]op{}, prefix...), op{k, fmt.Sprintf("k%d", len(prefix)), sz}))
			}
		}
	}
	rec(nil)
	counts := []int{10, 100, 1000, 10000, 100000}
	if tier == core.Thorough {
		counts = append(counts, 1000000)
	}
	for _, n := range counts {
		for _, vs := range []int{1, 100} {
			ops := make([]op, n)
			for j := range ops {
				ops[j] = op{"put", fmt.Sprintf("k%07d", j), vs}
			}
			ce := n / 10
			runBatch(fmt.Sprintf("%d puts of %d B", n, vs), ops, ce, false)
			runBatch(fmt.Sprintf("%d puts of %d B+crash", n, vs), ops, ce, true)
		}
	}
	rep.Set("engine_batch_atomicity", fmt.Sprintf("real leveldb adapter: %d batches (every sequence of <= 3 Put / PutIfAbsent / Delete with values %v bytes; long batches of %v small puts), database compared with its pre-batch content at %d points before Write and with the expected content after Write, %d close-and-reopen with a filled, unwritten batch", batches, sizes, counts, points, reopenings))
	rep.Add("evaluations", points+reopenings)
}
