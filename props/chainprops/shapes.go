package chainprops

import (
	"fmt"
	"math/big"
	"sort"
	"strings"
	"sync"

	pb "github.com/xuperchain/xupercore/bcs/ledger/xledger/xldgpb"
	"github.com/xuperchain/xupercore/verifshim/vhook"

	"verif/core"
	"verif/props/chain"
	"verif/world"
)

// The shape grid (part of C01 and C02). The event explorations run over
// hand-built universes; this part is systematic in the other direction: every
// sequence of up to N transaction SHAPES (token transfers with 0 / 1 / 2 fee
// outputs, zero-amount and frozen outputs, self transfers, multi-input spends,
// spends of the output / fee the previous transaction created, harness-contract
// writes, overwrites, deletes, deletes of a deleted key, reads feeding writes,
// contract transfers), each either in the same block as its predecessor or in
// the next one, is built on a producer node, and a subject node that received
// the blocks is walked forward block by block, back to every block, to genesis,
// across to an award-only sibling branch and back. C01: after any walk ending
// at block B the observation equals the one made when B was first reached (and
// a reopened copy agrees); C02: the conservation equalities hold at every stop.

type purse struct {
	tx    *pb.Transaction
	off   int
	owner string
	fee   bool // a "$" output collected by the proposer
}

type shapeGen struct {
	w      *world.World
	names  *world.Names
	purses []purse // oldest first
	n      int
	frozen []purse
}

func (g *shapeGen) take(owner string, fee bool) *purse {
	for k := len(g.purses) - 1; k >= 0; k-- { // newest first: dependencies on what was just built
		p := g.purses[k]
		if p.owner == owner && p.fee == fee {
			g.purses = append(g.purses[:k:k], g.purses[k+1:]...)
			return &p
		}
	}
	return nil
}

func (g *shapeGen) takeOldest(owner string) *purse {
	for k, p := range g.purses {
		if p.owner == owner && !p.fee {
			g.purses = append(g.purses[:k:k], g.purses[k+1:]...)
			return &p
		}
	}
	return nil
}

func amt(p *purse) *big.Int { return new(big.Int).SetBytes(p.tx.TxOutputs[p.off].Amount) }

func in(p *purse) world.In {
	i := world.In{Tx: p.tx, Offset: p.off}
	if p.fee {
		i.Owner = p.owner
	}
	return i
}

// register makes the outputs of an admitted transaction spendable.
func (g *shapeGen) register(tx *pb.Transaction, pendingFeeOwner string) {
	for off, o := range tx.TxOutputs {
		if new(big.Int).SetBytes(o.Amount).Sign() == 0 {
			continue
		}
		to := string(o.ToAddr)
		if to == "$" {
			continue // becomes the proposer's when the block is closed
		}
		owner := ""
		for _, n := range []string{"A", "B", "C", "D", "M"} {
			if world.Addr(n) == to {
				owner = n
			}
		}
		if owner == "" {
			continue
		}
		p := purse{tx: tx, off: off, owner: owner}
		if o.FrozenHeight != 0 {
			g.frozen = append(g.frozen, p)
			continue
		}
		g.purses = append(g.purses, p)
	}
}

type shape struct {
	name string
	mk   func(g *shapeGen, nonce string) (*pb.Transaction, error)
}

func sub(a *big.Int, n int64) string { return new(big.Int).Sub(a, big.NewInt(n)).String() }

func transferShape(name string, outs func(total *big.Int) []world.Out, need int64) shape {
	return shape{name, func(g *shapeGen, nonce string) (*pb.Transaction, error) {
		p := g.take("A", false)
		if p == nil || amt(p).Cmp(big.NewInt(need)) < 0 {
			return nil, fmt.Errorf("no purse")
		}
		return world.BuildTx(world.TxSpec{Initiator: "A", Ins: []world.In{in(p)}, Outs: outs(amt(p)), Nonce: nonce}), nil
	}}
}

func kvShape(name, prog string) shape {
	return shape{name, func(g *shapeGen, nonce string) (*pb.Transaction, error) {
		p := g.take("A", false)
		if p == nil {
			return nil, fmt.Errorf("no purse")
		}
		tx, _, err := g.w.BuildKVTx("A", prog, []world.In{in(p)}, nonce)
		return tx, err
	}}
}

var shapes = []shape{
	transferShape("transfer", func(t *big.Int) []world.Out {
		return []world.Out{{To: "B", Amount: "10"}, {To: "A", Amount: sub(t, 10)}}
	}, 20),
	transferShape("fee1", func(t *big.Int) []world.Out {
		return []world.Out{{To: "B", Amount: "10"}, {To: "$", Amount: "3"}, {To: "A", Amount: sub(t, 13)}}
	}, 20),
	transferShape("fee2", func(t *big.Int) []world.Out {
		return []world.Out{{To: "$", Amount: "3"}, {To: "B", Amount: "10"}, {To: "$", Amount: "2"}, {To: "A", Amount: sub(t, 15)}}
	}, 20),
	transferShape("zero_output", func(t *big.Int) []world.Out {
		return []world.Out{{To: "B", Amount: "0"}, {To: "A", Amount: t.String()}}
	}, 1),
	transferShape("zero_output_0x00", func(t *big.Int) []world.Out { // zero spelled as one zero byte
		return []world.Out{{To: "B", Raw: []byte{0}}, {To: "A", Amount: t.String()}}
	}, 1),
	transferShape("self_split", func(t *big.Int) []world.Out {
		return []world.Out{{To: "A", Amount: "7"}, {To: "A", Amount: sub(t, 7)}}
	}, 20),
	transferShape("frozen_output", func(t *big.Int) []world.Out {
		return []world.Out{{To: "B", Amount: "10", Frozen: 2}, {To: "A", Amount: sub(t, 10)}}
	}, 20),
	{"multi_input", func(g *shapeGen, nonce string) (*pb.Transaction, error) {
		p1, p2 := g.take("A", false), g.take("A", false)
		if p1 == nil || p2 == nil {
			return nil, fmt.Errorf("fewer than two purses")
		}
		sum := new(big.Int).Add(amt(p1), amt(p2))
		return world.BuildTx(world.TxSpec{Initiator: "A", Ins: []world.In{in(p1), in(p2)}, Outs: []world.Out{{To: "A", Amount: sum.String()}}, Nonce: nonce}), nil
	}},
	{"spend_received", func(g *shapeGen, nonce string) (*pb.Transaction, error) { // B spends what it was last paid
		p := g.take("B", false)
		if p == nil {
			return nil, fmt.Errorf("B holds nothing")
		}
		return world.BuildTx(world.TxSpec{Initiator: "B", Ins: []world.In{in(p)}, Outs: []world.Out{{To: "C", Amount: amt(p).String()}}, Nonce: nonce}), nil
	}},
	{"spend_matured_frozen", func(g *shapeGen, nonce string) (*pb.Transaction, error) {
		if len(g.frozen) == 0 {
			return nil, fmt.Errorf("no frozen output")
		}
		p := g.frozen[len(g.frozen)-1]
		g.frozen = g.frozen[:len(g.frozen)-1]
		return world.BuildTx(world.TxSpec{Initiator: "B", Ins: []world.In{in(&p)}, Outs: []world.Out{{To: "D", Amount: amt(&p).String()}}, Nonce: nonce}), nil
	}},
	{"spend_collected_fee", func(g *shapeGen, nonce string) (*pb.Transaction, error) {
		p := g.take("M", true)
		if p == nil {
			return nil, fmt.Errorf("no fee collected")
		}
		return world.BuildTx(world.TxSpec{Initiator: "M", Ins: []world.In{in(p)}, Outs: []world.Out{{To: "D", Amount: amt(p).String()}}, Nonce: nonce}), nil
	}},
	kvShape("kv_put_k1", "put k1 x"),
	kvShape("kv_put_k1_other", "put k1 y"),
	kvShape("kv_del_k1", "del k1"),
	kvShape("kv_read_write", "get k1;put k2 v"),
	kvShape("kv_put_k2_k3", "put k2 q;put k3 r"),
	kvShape("kv_write_and_transfer", "put k3 t;xfer C 5"),
}

type shapeItem struct {
	Shape     int  `json:"shape"`
	SameBlock bool `json:"same_block"` // in the block of the previous item (ignored for the first)
}

type shapeCase struct {
	ShapeGrid []shapeItem `json:"shape_grid"`
}

func (c shapeCase) String() string {
	var s []string
	for k, it := range c.ShapeGrid {
		sep := " | "
		if it.SameBlock || k == 0 {
			sep = " "
		}
		s = append(s, sep+shapes[it.Shape].name)
	}
	return "[" + strings.TrimSpace(strings.Join(s, "")) + "]"
}

type shapeStats struct {
	cases, skipped, blocks, walks, observations int
}

func shapeConfig() world.Config {
	cfg := world.DefaultConfig()
	cfg.Quotas = map[string]string{"A": "1000", "B": "1000", "C": "1000", "D": "1000"}
	return cfg
}

// runShapeCase builds the chain of one case and walks the subject over it.
func runShapeCase(c shapeCase, which string) (viol []core.Violation, st shapeStats, skipped string) {
	bad := func(key, f string, a ...interface{}) {
		viol = append(viol, core.Violation{Key: key, Summary: fmt.Sprintf("shape sequence %v: ", c) + fmt.Sprintf(f, a...), Case: c})
	}
	prod, err := world.New(shapeConfig(), world.RegisterVKV)
	if err != nil {
		core.HarnessError("shape grid: producer: %v", err)
	}
	defer prod.Drop()
	names := world.NewNames()
	g := &shapeGen{w: prod, names: names}
	root := prod.Genesis.Transactions[0]
	for off, o := range root.TxOutputs {
		for _, n := range []string{"A", "B", "C", "D"} {
			if string(o.ToAddr) == world.Addr(n) && n == "A" {
				g.purses = append(g.purses, purse{tx: root, off: off, owner: n})
			}
		}
	}
	names.Set(root.Txid, "root")
	names.Set(prod.Genesis.Blockid, "g")
	var blocks []*pb.InternalBlock
	parent := prod.Genesis
	ts := int64(100)
	closeBlock := func() bool {
		pool, err := prod.State.GetUnconfirmedTx(false)
		if err != nil {
			core.HarnessError("shape grid: pool: %v", err)
		}
		ts++
		tag := fmt.Sprintf("B%d", len(blocks)+1)
		blk, err := prod.FormatBlock("M", parent, pool, ts, tag)
		if err != nil {
			core.HarnessError("shape grid: format: %v", err)
		}
		stored := world.CloneBlock(blk)
		if ok, s := prod.Recv(blk); !ok {
			bad("c13.shape.producer_ledger_refused_own_block", "the producer's ledger refuses its own block %s: %s", tag, s)
			return false
		}
		if err := prod.State.PlayForMiner(blk.Blockid); err != nil {
			bad("c13.shape.producer_play_failed", "the producer cannot play its own block %s: %v", tag, err)
			return false
		}
		names.Set(stored.Blockid, tag)
		names.Set(stored.Transactions[0].Txid, "award("+tag+")")
		// fee outputs now belong to the proposer
		for _, t := range pool {
			for off, o := range t.TxOutputs {
				if string(o.ToAddr) == "$" && new(big.Int).SetBytes(o.Amount).Sign() > 0 {
					g.purses = append(g.purses, purse{tx: t, off: off, owner: "M", fee: true})
				}
			}
		}
		blocks = append(blocks, stored)
		parent = stored
		return true
	}
	for k, it := range c.ShapeGrid {
		if k > 0 && !it.SameBlock {
			if !closeBlock() {
				return
			}
		}
		g.n++
		nonce := fmt.Sprintf("s%d-%s", g.n, shapes[it.Shape].name)
		tx, err := shapes[it.Shape].mk(g, nonce)
		if err != nil {
			return nil, st, shapes[it.Shape].name + " not applicable here: " + err.Error()
		}
		if err := prod.SubmitStrict(world.CloneTx(tx)); err != nil {
			return nil, st, shapes[it.Shape].name + " not admissible here: " + err.Error()
		}
		names.Set(tx.Txid, fmt.Sprintf("t%d", g.n))
		g.register(tx, "M")
	}
	if !closeBlock() {
		return
	}
	st.blocks = len(blocks)
	// award-only sibling branch from genesis, one block longer
	var sib []*pb.InternalBlock
	sp := prod.Genesis
	for k := 0; k <= len(blocks); k++ {
		ts++
		b, err := prod.FormatBlock("P", sp, nil, ts, fmt.Sprintf("F%d", k+1))
		if err != nil {
			core.HarnessError("shape grid: sibling: %v", err)
		}
		names.Set(b.Blockid, fmt.Sprintf("F%d", k+1))
		names.Set(b.Transactions[0].Txid, fmt.Sprintf("award(F%d)", k+1))
		sib = append(sib, b)
		sp = b
	}
	// the subject
	sub, err := world.New(shapeConfig(), world.RegisterVKV)
	if err != nil {
		core.HarnessError("shape grid: subject: %v", err)
	}
	defer sub.Drop()
	for _, b := range blocks {
		if ok, s := sub.Recv(world.WireBlock(b)); !ok {
			bad("c01.shape.ledger_refused", "the subject's ledger refuses block %s: %s", names.Of(b.Blockid), s)
			return
		}
	}
	for _, b := range sib {
		if ok, s := sub.Recv(world.WireBlock(b)); !ok {
			bad("c01.shape.ledger_refused", "the subject's ledger refuses sibling block %s: %s", names.Of(b.Blockid), s)
			return
		}
	}
	first := map[string]map[string]string{}
	stop := func(id []byte, how string) bool {
		st.walks++
		err := sub.State.Walk(id, false)
		vhook.Drain()
		bn := names.Of(id)
		if err != nil {
			bad("c01.shape.walk_refused", "walk to %s (%s) fails: %v", bn, how, err)
			return false
		}
		o := chain.ObserveState(sub, names)
		st.observations++
		if which != "C02" {
			if f, ok := first[bn]; !ok {
				first[bn] = o
			} else if d := chain.Diff(f, o); len(d) > 0 {
				bad("c01.shape.differs."+diffKinds(d), "the state at %s after %s differs from the state when %s was first reached: %s", bn, how, bn, strings.Join(d[:minI(len(d), 3)], " | "))
				return false
			}
		}
		if which != "C01" {
			for _, v := range chain.ConservationOf(sub, names, "live") {
				v.Key = strings.Replace(v.Key, "c02.", "c02.shape.", 1)
				v.Summary = fmt.Sprintf("shape sequence %v, at %s after %s: %s", c, bn, how, v.Summary)
				v.Case = c
				viol = append(viol, v)
				return false
			}
		}
		return true
	}
	gid := sub.Genesis.Blockid
	if !stop(gid, "start") {
		return
	}
	for _, b := range blocks {
		if !stop(b.Blockid, "forward") {
			return
		}
	}
	tip := blocks[len(blocks)-1].Blockid
	for k := len(blocks) - 2; k >= 0; k-- { // back to every block from the tip, and forward again
		if !stop(blocks[k].Blockid, "walking back from the tip") || !stop(tip, "walking forward again") {
			return
		}
	}
	if !stop(gid, "walking back to genesis") {
		return
	}
	for k := range blocks { // straight from genesis, and back
		if !stop(blocks[k].Blockid, "a walk straight from genesis") || !stop(gid, "walking back to genesis") {
			return
		}
	}
	ftip := sib[len(sib)-1].Blockid
	if !stop(tip, "forward") || !stop(ftip, "crossing to the award-only sibling branch") {
		return
	}
	for k := range blocks {
		if !stop(blocks[k].Blockid, "crossing back from the sibling branch") || !stop(ftip, "crossing to the sibling branch again") {
			return
		}
	}
	// a reopened copy at the tip agrees
	if !stop(tip, "crossing back from the sibling branch") {
		return
	}
	if r, err := sub.Reopened(); err != nil {
		bad("c01.shape.reopen_failed", "cannot reopen: %v", err)
	} else {
		o := chain.ObserveState(r, names)
		if d := chain.Diff(first[names.Of(tip)], o); len(d) > 0 && which != "C02" {
			bad("c01.shape.differs.after_restart."+diffKinds(d), "a reopened copy at the tip differs: %s", strings.Join(d[:minI(len(d), 3)], " | "))
		}
		if which != "C01" {
			for _, v := range chain.ConservationOf(r, names, "reopened") {
				v.Key = strings.Replace(v.Key, "c02.", "c02.shape.", 1)
				v.Summary = fmt.Sprintf("shape sequence %v, reopened at the tip: %s", c, v.Summary)
				v.Case = c
				viol = append(viol, v)
				break
			}
		}
		r.Drop()
	}
	return
}

func minI(a, b int) int {
	if a < b {
		return a
	}
	return b
}

// diffKinds names the kinds of observation that differ (bal, detail, kv, select, raw_U, ...).
func diffKinds(d []string) string {
	set := map[string]bool{}
	for _, x := range d {
		k := x
		if j := strings.IndexByte(k, ':'); j >= 0 {
			k = k[:j]
		}
		if k == "raw" {
			rest := x[4:]
			switch {
			case strings.HasPrefix(rest, "ZU"):
				k = "raw_ZU"
			case strings.HasPrefix(rest, "U"):
				k = "raw_U"
			default:
				k = "raw_M"
			}
		}
		set[k] = true
	}
	var ks []string
	for k := range set {
		ks = append(ks, k)
	}
	sort.Strings(ks)
	return strings.Join(ks, "+")
}

// shapeGrid enumerates all sequences up to maxLen and reports into rep.
func shapeGrid(rep *core.Report, which string, maxLen int) {
	world.Init()
	vhook.Capture()
	var cases []shapeCase
	var rec func(prefix []shapeItem)
	rec = func(prefix []shapeItem) {
		if len(prefix) > 0 {
			cases = append(cases, shapeCase{append([]shapeItem(nil), prefix...)})
		}
		if len(prefix) == maxLen {
			return
		}
		for s := range shapes {
			if len(prefix) == 0 {
				rec(append(prefix, shapeItem{s, false}))
				continue
			}
			rec(append(append([]shapeItem(nil), prefix...), shapeItem{s, true}))
			rec(append(append([]shapeItem(nil), prefix...), shapeItem{s, false}))
		}
	}
	rec(nil)
	var mu sync.Mutex
	tot := shapeStats{}
	skippedWhy := map[string]int{}
	done := 0
	complete := true
	jobs := make(chan shapeCase, 64)
	var wg sync.WaitGroup
	for w := 0; w < 16; w++ {
		wg.Add(1)
		go func() {
			defer wg.Done()
			for c := range jobs {
				if rep.Expired() {
					mu.Lock()
					complete = false
					mu.Unlock()
					continue
				}
				v, st, skip := runShapeCase(c, which)
				mu.Lock()
				done++
				if skip != "" {
					tot.skipped++
					skippedWhy[strings.SplitN(skip, ":", 2)[0]]++
				} else {
					tot.cases++
					tot.blocks += st.blocks
					tot.walks += st.walks
					tot.observations += st.observations
					if tot.cases%400 == 1 {
						rep.Sample(map[string]interface{}{"engine": "shape-grid", "case": c.String(), "blocks": st.blocks, "walks": st.walks})
					}
				}
				mu.Unlock()
				for _, x := range v {
					rep.Violation(x)
				}
			}
		}()
	}
	for _, c := range cases {
		jobs <- c
	}
	close(jobs)
	wg.Wait()
	var sn []string
	for _, s := range shapes {
		sn = append(sn, s.name)
	}
	rep.Set("shape_grid", fmt.Sprintf("%d shapes %v; every sequence of <= %d shapes, each in the block of its predecessor or in the next one: %d sequences, %d built and walked (%d blocks, %d walks, %d observations), %d not constructible (a shape needs something the prefix did not create); completed=%v", len(shapes), sn, maxLen, len(cases), tot.cases, tot.blocks, tot.walks, tot.observations, tot.skipped, complete))
	rep.Set("shape_grid_not_constructible", skippedWhy)
	rep.Add("transitions", tot.walks)
	rep.Add("traces_validated_against_impl", tot.walks)
	if !complete {
		rep.Set("exhaustive", false)
	}
}

func replayShape(c shapeCase, which string) (bool, string, error) {
	world.Init()
	vhook.Capture()
	for _, it := range c.ShapeGrid {
		if it.Shape < 0 || it.Shape >= len(shapes) {
			return false, "", fmt.Errorf("unknown shape %d", it.Shape)
		}
	}
	v, _, skip := runShapeCase(c, which)
	if skip != "" {
		return false, skip, nil
	}
	if len(v) > 0 {
		return true, v[0].Key + ": " + v[0].Summary, nil
	}
	return false, "shape sequence replayed without violation", nil
}
