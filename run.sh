#!/bin/bash
# run.sh setup | run.sh <Cxx> quick|thorough | run.sh replay <file> | run.sh build
set -u
cd "$(dirname "$0")"
export GOFLAGS=-mod=mod GOPROXY=off GOSUMDB=off GOTOOLCHAIN=local CGO_ENABLED=1
export VERIF_ROOT="$(pwd)"
mkdir -p .build .scratch evidence replays
# per-run scratch (logs, leveldb conformance files), removed when the run ends
export VERIF_SCRATCH="$VERIF_ROOT/.scratch/run-$$"
mkdir -p "$VERIF_SCRATCH"
trap 'rm -rf "$VERIF_SCRATCH"' EXIT
build() {
  cp /repo/go.sum go.sum 2>/dev/null
  ( go run ./cmd/vrewrite -repo /repo -hooks "$VERIF_ROOT/hooks" -out "$VERIF_ROOT/.build/overlay" ) >.build/rewrite.log 2>&1 || { echo "HARNESS-ERROR rewrite"; cat .build/rewrite.log; exit 2; }
  go build -tags verif -overlay .build/overlay.json -o .build/vcheck ./cmd/vcheck >.build/build.log 2>&1 || { echo "HARNESS-ERROR build"; tail -50 .build/build.log; exit 2; }
}
# the free-running -race pass needs its own binary (checks with concurrent bodies only)
build_race() {
  go build -race -tags verif -overlay .build/overlay.json -o .build/vcheck-race ./cmd/vcheck >.build/build-race.log 2>&1 || { echo "HARNESS-ERROR build (race)"; tail -50 .build/build-race.log; exit 2; }
}
case "${1:-}" in
  build) build ;;
  setup)
    build
    build_race
    ./.build/vcheck selftest || exit 2
    ;;
  replay)
    build
    ./.build/vcheck replay "$2"; exit $?
    ;;
  C[0-9][0-9])
    build
    case "$1" in C12|C20) build_race ;; esac
    tier="${2:-${VERIF_TIER:-quick}}"
    ./.build/vcheck check "$1" --tier "$tier"; exit $?
    ;;
  *) echo "usage: run.sh setup | <Cxx> quick|thorough | replay <file>"; exit 2 ;;
esac
