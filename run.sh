#!/bin/bash
# run.sh setup | run.sh <Cxx> quick|thorough | run.sh replay <file> | run.sh build
set -u
cd "$(dirname "$0")"
export GOFLAGS=-mod=mod GOPROXY=off GOSUMDB=off GOTOOLCHAIN=local CGO_ENABLED=1
export VERIF_ROOT="${VERIF_ROOT:-$(pwd)}"
# VERIF_REPO / VERIF_BUILD: development only (a scratch worktree of the repository with its own build
# directory, so that several people can work at once); the registered commands use /repo and .build
REPO="${VERIF_REPO:-/repo}"
B="${VERIF_BUILD:-.build}"
MODFLAG=""
mkdir -p "$B" .scratch "$VERIF_ROOT/evidence" "$VERIF_ROOT/replays" 2>/dev/null
if [ "$REPO" != "/repo" ]; then
  sed "s#=> /repo#=> $REPO#" go.mod > "$B/go.mod"; cp "$REPO/go.sum" "$B/go.sum"
  MODFLAG="-modfile=$B/go.mod"
fi
[ "$B" != ".build" ] && export VERIF_RACE_BIN="$(cd "$B" && pwd)/vcheck-race"
[ "$VERIF_ROOT" != "$(pwd)" ] && cp known_findings.json "$VERIF_ROOT/known_findings.json"
# per-run scratch (logs, leveldb conformance files), removed when the run ends
export VERIF_SCRATCH="$(pwd)/.scratch/run-$$"
mkdir -p "$VERIF_SCRATCH"
trap 'rm -rf "$VERIF_SCRATCH"' EXIT
build() {
  [ "$REPO" = "/repo" ] && cp /repo/go.sum go.sum 2>/dev/null
  ( go run ./cmd/vrewrite -repo "$REPO" -hooks "$(pwd)/hooks" -out "$(cd "$B" && pwd)/overlay" ) >"$B/rewrite.log" 2>&1 || { echo "HARNESS-ERROR rewrite"; cat "$B/rewrite.log"; exit 2; }
  go build $MODFLAG -tags verif -overlay "$B/overlay.json" -o "$B/vcheck" ${VERIF_CMD:-./cmd/vcheck} >"$B/build.log" 2>&1 || { echo "HARNESS-ERROR build"; tail -50 "$B/build.log"; exit 2; }
}
# the free-running -race pass needs its own binary (checks with concurrent bodies only)
build_race() {
  go build $MODFLAG -race -tags verif -overlay "$B/overlay.json" -o "$B/vcheck-race" ${VERIF_CMD:-./cmd/vcheck} >"$B/build-race.log" 2>&1 || { echo "HARNESS-ERROR build (race)"; tail -50 "$B/build-race.log"; exit 2; }
}
case "${1:-}" in
  build) build ;;
  setup)
    build
    build_race
    "$B/vcheck" selftest || exit 2
    ;;
  replay)
    build
    "$B/vcheck" replay "$2"; exit $?
    ;;
  C[0-9][0-9])
    build
    case "$1" in C12|C20) build_race ;; esac
    tier="${2:-${VERIF_TIER:-quick}}"
    "$B/vcheck" check "$1" --tier "$tier"; exit $?
    ;;
  *) echo "usage: run.sh setup | <Cxx> quick|thorough | replay <file>"; exit 2 ;;
esac
