#!/bin/bash
# runall.sh [tier] [ids...] : run checks in sequence, print one line each
cd "$(dirname "$0")"
tier="${1:-quick}"; shift
ids="$@"; [ -z "$ids" ] && ids="C01 C02 C03 C04 C05 C06 C07 C08 C09 C10 C11 C12 C13 C14 C15 C16 C17 C18 C19 C20"
for c in $ids; do
  s=$(date +%s)
  out=$(./run.sh $c $tier 2>&1); rc=$?
  e=$(date +%s)
  echo "$c rc=$rc $((e-s))s $(echo "$out" | grep -cE '^KNOWN-FINDING') known $(echo "$out" | grep -cE '^VIOLATION') viol | $(echo "$out" | tail -1 | cut -c1-120)"
done
