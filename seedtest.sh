#!/bin/bash
# seedtest.sh <patch.diff> <tier> <check ids...> : apply a seeded change to /repo, run checks, undo.
cd "$(dirname "$0")"
patch="$1"; tier="$2"; shift 2
git -C /repo status --short | grep -v '^??' && { echo "repo not clean"; exit 2; }
git -C /repo apply "$patch" || { echo "patch does not apply"; exit 2; }
for c in "$@"; do
  s=$(date +%s)
  out=$(./run.sh $c $tier 2>&1); rc=$?
  e=$(date +%s)
  echo "  $c rc=$rc $((e-s))s | $(echo "$out" | grep -E 'key=' | head -4 | tr '\n' ' ' | cut -c1-400) | $(echo "$out" | tail -1 | cut -c1-100)"
done
git -C /repo checkout -- .
