#!/bin/bash
# seedtest2.sh <patch.diff> <tier> <check ids...> : like seedtest.sh, but on a scratch worktree of /repo
# (/tmp/seed/me, created with `git -C /repo worktree add --detach /tmp/seed/me HEAD`) with its own build
# directory, so /repo stays untouched (safe while other runs build from /repo).
cd "$(dirname "$0")"
patch="$1"; tier="$2"; shift 2
WT=${WT:-/tmp/seed/me}
SB=${SB:-/root/scratch/me}
git -C $WT checkout -q --detach "$(git -C /repo rev-parse HEAD)" || exit 2
git -C $WT status --short | grep -v '^??' && { echo "worktree not clean"; exit 2; }
git -C $WT apply "$patch" || { echo "patch does not apply"; exit 2; }
mkdir -p $SB/out $SB/build
for c in "$@"; do
  s=$(date +%s)
  out=$(VERIF_CMD=${VERIF_CMD:-./cmd/vcheck} VERIF_REPO=$WT VERIF_BUILD=$SB/build VERIF_ROOT=$SB/out ./run.sh $c $tier 2>&1); rc=$?
  e=$(date +%s)
  echo "  $c rc=$rc $((e-s))s | $(echo "$out" | grep -E 'key=' | head -4 | tr '\n' ' ' | cut -c1-400) | $(echo "$out" | tail -1 | cut -c1-100)"
done
git -C $WT checkout -- .
