package world

import (
	"bytes"
	"errors"
	"fmt"
	"math/big"
	"sort"
	"strings"

	"github.com/golang/protobuf/proto"

	"github.com/xuperchain/xupercore/bcs/ledger/xledger/state/utxo/txhash"
	txn "github.com/xuperchain/xupercore/bcs/ledger/xledger/tx"
	pb "github.com/xuperchain/xupercore/bcs/ledger/xledger/xldgpb"
	"github.com/xuperchain/xupercore/kernel/common/xcontext"
	"github.com/xuperchain/xupercore/kernel/contract"
	"github.com/xuperchain/xupercore/lib/timer"
	"github.com/xuperchain/xupercore/protos"
)

// Out describes one token output.
type Out struct {
	To     string // symbolic key name, "$" for fee, or a raw address / account
	Amount string // decimal; ignored if Raw != nil
	Raw    []byte // raw amount bytes (for leading-zero encodings)
	Frozen int64
}

// In references output Offset of transaction Tx.
type In struct {
	Tx     *pb.Transaction
	Offset int
	// Owner overrides the FromAddr (default: the output's ToAddr; for a "$"
	// output the owner must be given: the proposer that collected the fee).
	Owner string
}

// ResolveAddr maps a symbolic name to an address (other strings pass through).
func ResolveAddr(s string) string {
	if k, ok := Keys[s]; ok {
		return k.Address
	}
	return s
}

func amountBytes(o Out) []byte {
	if o.Raw != nil {
		return o.Raw
	}
	n, ok := new(big.Int).SetString(o.Amount, 10)
	if !ok {
		panic("bad amount " + o.Amount)
	}
	return n.Bytes()
}

// TxSpec is the declarative form of a transaction.
type TxSpec struct {
	Initiator string // key name
	Ins       []In
	Outs      []Out
	Version   int32 // default 3
	Nonce     string
	Desc      string
	Timestamp int64
	// Signers are additional AuthRequire key names (besides the initiator).
	Signers []string
	// Contract part (filled by PreExec based builders).
	Requests   []*protos.InvokeRequest
	InputsExt  []*protos.TxInputExt
	OutputsExt []*protos.TxOutputExt
}

// BuildTx builds and signs a transaction from a spec.
func BuildTx(s TxSpec) *pb.Transaction {
	Init()
	tx := &pb.Transaction{}
	tx.Version = s.Version
	if tx.Version == 0 {
		tx.Version = 3
	}
	tx.Nonce = s.Nonce
	tx.Timestamp = s.Timestamp
	if s.Desc != "" {
		tx.Desc = []byte(s.Desc)
	}
	ini := Keys[s.Initiator]
	tx.Initiator = ini.Address
	tx.AuthRequire = []string{ini.Address}
	for _, n := range s.Signers {
		tx.AuthRequire = append(tx.AuthRequire, Keys[n].Address)
	}
	for _, in := range s.Ins {
		o := in.Tx.TxOutputs[in.Offset]
		from := o.ToAddr
		if in.Owner != "" {
			from = []byte(ResolveAddr(in.Owner))
		}
		tx.TxInputs = append(tx.TxInputs, &protos.TxInput{
			RefTxid:   in.Tx.Txid,
			RefOffset: int32(in.Offset),
			FromAddr:  from,
			// the canonical byte form: the state machine compares cited amounts byte-wise
			Amount:       new(big.Int).SetBytes(o.Amount).Bytes(),
			FrozenHeight: o.FrozenHeight,
		})
	}
	for _, o := range s.Outs {
		tx.TxOutputs = append(tx.TxOutputs, &protos.TxOutput{
			ToAddr:       []byte(ResolveAddr(o.To)),
			Amount:       amountBytes(o),
			FrozenHeight: o.Frozen,
		})
	}
	tx.ContractRequests = s.Requests
	tx.TxInputsExt = s.InputsExt
	tx.TxOutputsExt = s.OutputsExt
	SignTx(tx, s.Initiator, s.Signers)
	return tx
}

// SignTx (re)computes signatures and the txid.
func SignTx(tx *pb.Transaction, initiator string, signers []string) {
	tx.InitiatorSigns = nil
	tx.AuthRequireSigns = nil
	digest, err := txhash.MakeTxDigestHash(tx)
	if err != nil {
		panic(err)
	}
	sign := func(n string) *protos.SignatureInfo {
		k := Keys[n]
		sg, err := Crypto.SignECDSA(k.Priv, digest)
		if err != nil {
			panic(err)
		}
		return &protos.SignatureInfo{PublicKey: k.PubJSON, Sign: sg}
	}
	is := sign(initiator)
	tx.InitiatorSigns = []*protos.SignatureInfo{is}
	tx.AuthRequireSigns = []*protos.SignatureInfo{is}
	for _, n := range signers {
		tx.AuthRequireSigns = append(tx.AuthRequireSigns, sign(n))
	}
	tx.Txid, err = txhash.MakeTransactionID(tx)
	if err != nil {
		panic(err)
	}
}

// CloneTx deep-copies a transaction.
func CloneTx(tx *pb.Transaction) *pb.Transaction { return proto.Clone(tx).(*pb.Transaction) }

// CloneBlock deep-copies a block.
func CloneBlock(b *pb.InternalBlock) *pb.InternalBlock { return proto.Clone(b).(*pb.InternalBlock) }

// WireBlock returns the block after a protobuf wire round trip.
func WireBlock(b *pb.InternalBlock) *pb.InternalBlock {
	buf, err := proto.Marshal(b)
	if err != nil {
		panic(err)
	}
	nb := &pb.InternalBlock{}
	if err := proto.Unmarshal(buf, nb); err != nil {
		panic(err)
	}
	return nb
}

// WireTx returns the tx after a protobuf wire round trip.
func WireTx(t *pb.Transaction) *pb.Transaction {
	buf, err := proto.Marshal(t)
	if err != nil {
		panic(err)
	}
	nt := &pb.Transaction{}
	if err := proto.Unmarshal(buf, nt); err != nil {
		panic(err)
	}
	return nt
}

// AwardTx builds a deterministic award transaction for a block at height by proposer.
func (w *World) AwardTx(proposer string, height int64, tag string) *pb.Transaction {
	amount := w.Ledger.GenesisBlock.CalcAward(height)
	tx := &pb.Transaction{Version: txn.TxVersion}
	tx.TxOutputs = append(tx.TxOutputs, &protos.TxOutput{ToAddr: []byte(ResolveAddr(proposer)), Amount: amount.Bytes()})
	tx.Desc = []byte("award " + tag)
	tx.Coinbase = true
	tx.Timestamp = height
	tx.Txid, _ = txhash.MakeTransactionID(tx)
	return tx
}

// FormatBlock formats and signs a block on parent carrying award + txs.
func (w *World) FormatBlock(proposer string, parent *pb.InternalBlock, txs []*pb.Transaction, ts int64, tag string) (*pb.InternalBlock, error) {
	height := parent.Height + 1
	list := []*pb.Transaction{w.AwardTx(proposer, height, tag)}
	for _, t := range txs {
		list = append(list, CloneTx(t))
	}
	k := Keys[proposer]
	return w.Ledger.FormatMinerBlock(list, []byte(k.Address), k.Priv, ts, 0, 0, parent.Blockid, 0, w.State.GetTotal(), nil, nil, height)
}

// Submit runs the real Chain.SubmitTx (kernel/engines/xuperos/chain.go) on this
// node, without its 120 s recently-posted-txid guard.
func (w *World) Submit(tx *pb.Transaction) error {
	if err := w.Node.VSubmit(w.xctx(), tx); err != nil {
		return err
	}
	return nil
}

func (w *World) xctx() *xcontext.BaseCtx {
	c := &xcontext.BaseCtx{}
	c.XLog = w.Log
	c.Timer = timer.NewXTimer()
	return c
}

// SubmitStrict is Submit but also fails when VerifyTx returns false without error.
func (w *World) SubmitStrict(tx *pb.Transaction) error {
	ok, err := w.State.VerifyTx(tx)
	if err != nil {
		return err
	}
	if !ok {
		return errors.New("VerifyTx returned false")
	}
	return w.State.DoTx(tx)
}

// Recv confirms a block in the ledger (what a node does with a received block
// before walking): clone first because ConfirmBlock mutates its argument.
func (w *World) Recv(b *pb.InternalBlock) (ok bool, st string) {
	cs := w.Ledger.ConfirmBlock(CloneBlock(b), false)
	return cs.Succ, fmt.Sprintf("succ=%v split=%v orphan=%v switch=%v", cs.Succ, cs.Split, cs.Orphan, cs.TrunkSwitch)
}

// Sync walks the state machine to the ledger tip.
func (w *World) Sync() error {
	return w.State.Walk(w.Ledger.GetMeta().TipBlockid, false)
}

// ---------------------------------------------------------------------------
// $vkv harness kernel contract

// VKVContract is the name of the harness contract.
const VKVContract = "$vkv"

// VKVBucket is the default bucket of the harness contract.
const VKVBucket = "vb"

// RegisterVKV registers the harness kernel contract `$vkv` (method run) and
// `$vkv2` (same interpreter, for nested calls).
func RegisterVKV(m contract.Manager) {
	r := m.GetKernRegistry()
	r.RegisterKernMethod(VKVContract, "run", vkvRun)
	r.RegisterKernMethod("$vkv2", "run", vkvRun)
}

// vkvRun interprets args["prog"]: statements separated by ';':
//
//	get k | put k v | del k | sel a b | cp SRC DST | cnt K a b | xfer TO AMT | call PROG(with , as separator) | fail | gas N
//
// The response body is the concatenated observations.
func vkvRun(ctx contract.KContext) (*contract.Response, error) {
	prog := string(ctx.Args()["prog"])
	bucket := VKVBucket
	if b, ok := ctx.Args()["bucket"]; ok {
		bucket = string(b)
	}
	var out bytes.Buffer
	gas := int64(0)
	var more contract.Limits
	for _, st := range strings.Split(prog, ";") {
		f := strings.Fields(st)
		if len(f) == 0 {
			continue
		}
		gas++
		switch f[0] {
		case "get":
			v, err := ctx.Get(bucket, []byte(f[1]))
			if err != nil {
				fmt.Fprintf(&out, "get %s=<nil>;", f[1])
			} else {
				fmt.Fprintf(&out, "get %s=%s;", f[1], v)
			}
		case "put":
			if err := ctx.Put(bucket, []byte(f[1]), []byte(f[2])); err != nil {
				return nil, err
			}
		case "del":
			if err := ctx.Del(bucket, []byte(f[1])); err != nil {
				return nil, err
			}
		case "cp": // cp SRC DST: what was read decides what is written
			v, err := ctx.Get(bucket, []byte(f[1]))
			if err != nil {
				v = []byte("<nil>")
			}
			if err := ctx.Put(bucket, []byte(f[2]), append([]byte("cp:"), v...)); err != nil {
				return nil, err
			}
		case "cnt": // cnt K a b: K := number and keys of the rows of [a, b)
			var a, b []byte
			if f[2] == "''" {
				a = []byte{}
			} else if f[2] != "-" {
				a = []byte(f[2])
			}
			if f[3] == "''" {
				b = []byte{}
			} else if f[3] != "-" {
				b = []byte(f[3])
			}
			it, err := ctx.Select(bucket, a, b)
			if err != nil {
				return nil, err
			}
			n, keys := 0, ""
			for it.Next() {
				n++
				keys += string(it.Key()) + ","
			}
			it.Close()
			if err := ctx.Put(bucket, []byte(f[1]), []byte(fmt.Sprintf("%d:%s", n, keys))); err != nil {
				return nil, err
			}
		case "sel":
			var a, b []byte // "-" = nil bound, "''" = empty but present bound
			if f[1] == "''" {
				a = []byte{}
			} else if f[1] != "-" {
				a = []byte(f[1])
			}
			if f[2] == "''" {
				b = []byte{}
			} else if f[2] != "-" {
				b = []byte(f[2])
			}
			it, err := ctx.Select(bucket, a, b)
			if err != nil {
				return nil, err
			}
			fmt.Fprintf(&out, "sel[")
			for it.Next() {
				fmt.Fprintf(&out, "%s=%s,", it.Key(), it.Value())
			}
			it.Close()
			fmt.Fprintf(&out, "];")
		case "xfer":
			amt, _ := new(big.Int).SetString(f[2], 10)
			// always spends from the initiator, as the bridge syscall does
			if err := ctx.Transfer(ctx.Initiator(), ResolveAddr(f[1]), amt); err != nil {
				return nil, err
			}
		case "call":
			sub := strings.ReplaceAll(strings.Join(f[1:], " "), ",", ";")
			resp, err := ctx.Call("xkernel", "$vkv2", "run", map[string][]byte{"prog": []byte(sub), "bucket": []byte(bucket)})
			if err != nil {
				fmt.Fprintf(&out, "call err;")
			} else {
				fmt.Fprintf(&out, "call %d %s;", resp.Status, resp.Body)
			}
		case "fail":
			return nil, errors.New("vkv fail")
		case "status500":
			return &contract.Response{Status: 500, Message: "vkv status500", Body: out.Bytes()}, nil
		case "gas":
			var n int64
			fmt.Sscan(f[1], &n)
			gas += n
		case "cpu", "mem", "disk": // resources that are converted to gas by rounding up to the genesis rates
			var n int64
			fmt.Sscan(f[1], &n)
			switch f[0] {
			case "cpu":
				more.Cpu += n
			case "mem":
				more.Memory += n
			default:
				more.Disk += n
			}
		default:
			return nil, fmt.Errorf("vkv: bad statement %q", st)
		}
	}
	more.XFee = gas
	ctx.AddResourceUsed(more)
	return &contract.Response{Status: 200, Body: out.Bytes()}, nil
}

// PreExecResult is what Chain.PreExec returns, computed by the same public pieces.
type PreExecResult struct {
	GasUsed     int64
	Requests    []*protos.InvokeRequest
	Inputs      []*protos.TxInputExt
	Outputs     []*protos.TxOutputExt
	UtxoInputs  []*protos.TxInput
	UtxoOutputs []*protos.TxOutput
	Responses   []*contract.Response
}

// PreExec runs the real Chain.PreExec (kernel/engines/xuperos/chain.go) on this node.
func (w *World) PreExec(reqs []*protos.InvokeRequest, initiator string, authRequire []string) (*PreExecResult, error) {
	resp, err := w.Node.PreExec(w.xctx(), reqs, initiator, authRequire)
	if err != nil {
		return nil, err
	}
	res := &PreExecResult{GasUsed: resp.GasUsed, Requests: resp.Requests, Inputs: resp.Inputs, Outputs: resp.Outputs,
		UtxoInputs: resp.UtxoInputs, UtxoOutputs: resp.UtxoOutputs}
	for _, r := range resp.Responses {
		res.Responses = append(res.Responses, &contract.Response{Status: int(r.Status), Message: r.Message, Body: r.Body})
	}
	return res, nil
}

// VKVRequest builds an invoke request for the harness contract.
func VKVRequest(prog string) *protos.InvokeRequest {
	return &protos.InvokeRequest{ModuleName: "xkernel", ContractName: VKVContract, MethodName: "run", Args: map[string][]byte{"prog": []byte(prog)}}
}

// BuildKVTx pre-executes prog on w and assembles the signed transaction. The fee
// (gas used) is paid from the given inputs; change goes back to the initiator.
func (w *World) BuildKVTx(initiator string, prog string, ins []In, nonce string) (*pb.Transaction, *PreExecResult, error) {
	ini := Keys[initiator]
	pre, err := w.PreExec([]*protos.InvokeRequest{VKVRequest(prog)}, ini.Address, []string{ini.Address})
	if err != nil {
		return nil, nil, err
	}
	total := big.NewInt(0)
	for _, in := range ins {
		total.Add(total, new(big.Int).SetBytes(in.Tx.TxOutputs[in.Offset].Amount))
	}
	outs := []Out{}
	fee := big.NewInt(pre.GasUsed)
	if fee.Sign() > 0 {
		outs = append(outs, Out{To: "$", Amount: fee.String()})
	}
	change := new(big.Int).Sub(total, fee)
	if change.Sign() < 0 {
		return nil, nil, fmt.Errorf("inputs %s do not cover fee %s", total, fee)
	}
	if change.Sign() > 0 {
		outs = append(outs, Out{To: initiator, Amount: change.String()})
	}
	spec := TxSpec{Initiator: initiator, Ins: ins, Outs: outs, Nonce: nonce, Requests: pre.Requests, InputsExt: pre.Inputs, OutputsExt: pre.Outputs}
	tx := BuildTx(spec)
	return tx, pre, nil
}

// ---------------------------------------------------------------------------
// naming

// Names maps raw ids to symbolic names for canonical keys and samples.
type Names struct {
	m map[string]string
}

// NewNames creates a name table.
func NewNames() *Names { return &Names{m: map[string]string{}} }

// Set binds id to name.
func (n *Names) Set(id []byte, name string) { n.m[string(id)] = name }

// Of returns the symbolic name of id (hex prefix if unknown).
func (n *Names) Of(id []byte) string {
	if len(id) == 0 {
		return "-"
	}
	if s, ok := n.m[string(id)]; ok {
		return s
	}
	return fmt.Sprintf("?%x", id[:4])
}

// Replace substitutes every known id (raw and hex form) inside s.
func (n *Names) Replace(s string) string {
	keys := make([]string, 0, len(n.m))
	for k := range n.m {
		keys = append(keys, k)
	}
	sort.Strings(keys)
	for _, k := range keys {
		s = strings.ReplaceAll(s, k, "<"+n.m[k]+">")
		s = strings.ReplaceAll(s, fmt.Sprintf("%x", k), "<"+n.m[k]+">")
	}
	return s
}
