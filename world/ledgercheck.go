package world

import (
	"bytes"
	"fmt"
	"sort"
	"strings"

	"github.com/xuperchain/xupercore/bcs/ledger/xledger/ledger"
)

// RefTree is the boring reference model of the ledger: the set of stored
// blocks of a universe, the current tip by the arrival rule, and whether a
// truncation happened.
type RefTree struct {
	U         *Universe
	Stored    map[string]bool
	Tip       string
	Truncated bool
}

// NewRefTree starts with genesis only.
func NewRefTree(u *Universe) *RefTree {
	return &RefTree{U: u, Stored: map[string]bool{"g": true}, Tip: "g"}
}

// Clone copies the model.
func (r *RefTree) Clone() *RefTree {
	c := &RefTree{U: r.U, Stored: map[string]bool{}, Tip: r.Tip, Truncated: r.Truncated}
	for k, v := range r.Stored {
		c.Stored[k] = v
	}
	return c
}

// Accept records that block name was confirmed.
func (r *RefTree) Accept(name string) {
	r.Stored[name] = true
	if r.U.Parent[name] == r.Tip || r.U.Height[name] > r.U.Height[r.Tip] {
		r.Tip = name
	}
}

// Truncate records a truncation to name: every block above its height goes.
func (r *RefTree) Truncate(name string) {
	h := r.U.Height[name]
	for n := range r.Stored {
		if r.U.Height[n] > h {
			delete(r.Stored, n)
		}
	}
	r.Tip = name
	r.Truncated = true
}

// OnTrunk reports whether name is on the path genesis..tip.
func (r *RefTree) OnTrunk(name string) bool {
	for n := r.Tip; n != ""; n = r.U.Parent[n] {
		if n == name {
			return true
		}
	}
	return false
}

// Trunk returns genesis..tip.
func (r *RefTree) Trunk() []string { return r.U.Chain(r.Tip) }

// Leaves returns the stored blocks without stored children, sorted.
func (r *RefTree) Leaves() []string {
	hasChild := map[string]bool{}
	for n := range r.Stored {
		if p := r.U.Parent[n]; p != "" && r.Stored[p] {
			hasChild[p] = true
		}
	}
	var out []string
	for n := range r.Stored {
		if !hasChild[n] {
			out = append(out, n)
		}
	}
	sort.Strings(out)
	return out
}

// StoredSorted lists the stored block names.
func (r *RefTree) StoredSorted() []string {
	var out []string
	for n := range r.Stored {
		out = append(out, n)
	}
	sort.Strings(out)
	return out
}

// WouldReject reports whether the reference says block name must be refused
// now: unknown parent, two coinbases, or (when it would become the tip) a
// transaction already contained in one of its ancestors. ok=false means the
// reference has no opinion (bad block that lands on a side branch).
func (r *RefTree) WouldReject(name string) (reject bool, ok bool) {
	u := r.U
	p := u.Parent[name]
	if !r.Stored[p] {
		return true, true
	}
	blk := u.Block(name)
	cb := 0
	for _, t := range blk.Transactions {
		if t.Coinbase {
			cb++
		}
	}
	if cb > 1 {
		return true, true
	}
	becomesTip := p == r.Tip || u.Height[name] > u.Height[r.Tip]
	anc := map[string]bool{}
	for _, a := range u.Chain(p) {
		ab := u.Block(a)
		for _, t := range ab.Transactions {
			anc[string(t.Txid)] = true
		}
	}
	dup := false
	for _, t := range blk.Transactions {
		if anc[string(t.Txid)] {
			dup = true
		}
	}
	if dup {
		// the ledger's duplicate test is a mechanism of the trunk-extension path;
		// the statement does not require it on fork switches: no opinion there
		if p == r.Tip {
			return true, true
		}
		return false, false
	}
	_ = becomesTip
	return false, true
}

// LedgerIssue is one failed invariant.
type LedgerIssue struct {
	Code   string // stable short code of the invariant
	Detail string
}

func (i LedgerIssue) String() string { return i.Code + ": " + i.Detail }

// CheckLedger evaluates the C04 invariants on a ledger through its public
// queries against the reference tree.
func CheckLedger(l *ledger.Ledger, ref *RefTree, tainted map[string]bool) (issues []LedgerIssue) {
	u := ref.U
	add := func(code, f string, a ...interface{}) {
		issues = append(issues, LedgerIssue{code, fmt.Sprintf(f, a...)})
	}
	defer func() {
		if r := recover(); r != nil {
			add("panic", "%v", r)
		}
	}()
	nm := u.Names
	meta := l.GetMeta()
	if nm.Of(meta.TipBlockid) != ref.Tip {
		add("tip", "meta tip %s, reference %s", nm.Of(meta.TipBlockid), ref.Tip)
	}
	if meta.TrunkHeight != u.Height[ref.Tip] {
		add("trunk_height", "meta trunk height %d, reference %d", meta.TrunkHeight, u.Height[ref.Tip])
	}
	if nm.Of(meta.RootBlockid) != "g" {
		add("root", "meta root %s", nm.Of(meta.RootBlockid))
	}
	trunk := ref.Trunk()
	onTrunk := map[string]bool{}
	for _, n := range trunk {
		onTrunk[n] = true
	}
	// every universe block: stored or not, flags, links
	maxH := int64(0)
	for _, n := range u.BOrder {
		id := u.ID(n)
		stored := ref.Stored[n]
		if l.ExistBlock(id) != stored {
			add("exist", "ExistBlock(%s)=%v, reference stored=%v", n, !stored, stored)
			continue
		}
		hdr, herr := l.QueryBlockHeader(id)
		full, ferr := l.QueryBlock(id)
		if !stored {
			if herr == nil || ferr == nil {
				add("query_absent", "block %s not stored but QueryBlockHeader err=%v QueryBlock err=%v", n, herr, ferr)
			}
			continue
		}
		if herr != nil || ferr != nil {
			add("query_stored", "block %s stored but QueryBlockHeader err=%v QueryBlock err=%v", n, herr, ferr)
			continue
		}
		if u.Height[n] > maxH {
			maxH = u.Height[n]
		}
		for _, q := range []struct {
			what    string
			inTrunk bool
			next    []byte
			height  int64
			pre     []byte
		}{{"QueryBlockHeader", hdr.InTrunk, hdr.NextHash, hdr.Height, hdr.PreHash}, {"QueryBlock", full.InTrunk, full.NextHash, full.Height, full.PreHash}} {
			if q.height != u.Height[n] {
				add("height", "%s(%s).Height=%d, reference %d", q.what, n, q.height, u.Height[n])
			}
			if nm.Of(q.pre) != orDash(u.Parent[n]) {
				add("prehash", "%s(%s).PreHash=%s, reference %s", q.what, n, nm.Of(q.pre), orDash(u.Parent[n]))
			}
			if q.inTrunk != onTrunk[n] {
				add("intrunk:"+q.what, "%s(%s).InTrunk=%v, reference %v", q.what, n, q.inTrunk, onTrunk[n])
			}
			wantNext := "-"
			if onTrunk[n] && n != ref.Tip {
				wantNext = trunk[u.Height[n]+1]
			}
			if nm.Of(q.next) != wantNext {
				add("nexthash:"+q.what, "%s(%s).NextHash=%s, reference %s", q.what, n, nm.Of(q.next), wantNext)
			}
		}
		// body of a stored block
		want := u.Block(n)
		if len(full.Transactions) != len(want.Transactions) {
			add("body", "QueryBlock(%s) has %d txs, block has %d", n, len(full.Transactions), len(want.Transactions))
		} else {
			for i := range want.Transactions {
				if !bytes.Equal(full.Transactions[i].Txid, want.Transactions[i].Txid) {
					add("body", "QueryBlock(%s) tx %d is %s, block has %s", n, i, nm.Of(full.Transactions[i].Txid), nm.Of(want.Transactions[i].Txid))
				}
			}
		}
	}
	if maxH > u.Height[ref.Tip] {
		add("tip_not_max", "a stored block has height %d above the tip's %d", maxH, u.Height[ref.Tip])
	}
	// height index = trunk path
	for h := int64(0); h <= maxH+1; h++ {
		blk, err := l.QueryBlockByHeight(h)
		if h < int64(len(trunk)) {
			if err != nil {
				add("height_index", "QueryBlockByHeight(%d) err=%v, reference %s", h, err, trunk[h])
			} else if nm.Of(blk.Blockid) != trunk[h] {
				add("height_index", "QueryBlockByHeight(%d)=%s, reference %s", h, nm.Of(blk.Blockid), trunk[h])
			}
		} else if err == nil {
			add("height_index", "QueryBlockByHeight(%d)=%s above the trunk", h, nm.Of(blk.Blockid))
		}
	}
	// transactions
	inBad := map[string]bool{}
	for k := range tainted {
		inBad[k] = true
	}
	for _, n := range u.BOrder {
		if u.Bad[n] && ref.Stored[n] {
			for _, t := range u.Block(n).Transactions {
				inBad[string(t.Txid)] = true
			}
		}
	}
	trunkTx := map[string]string{}
	for _, n := range trunk {
		for _, t := range u.Block(n).Transactions {
			trunkTx[string(t.Txid)] = n
		}
	}
	seenTx := map[string]bool{}
	for _, n := range u.BOrder {
		if !ref.Stored[n] {
			continue
		}
		for _, t := range u.Block(n).Transactions {
			k := string(t.Txid)
			if seenTx[k] || inBad[k] {
				continue
			}
			seenTx[k] = true
			tn := nm.Of(t.Txid)
			if tb, ok := trunkTx[k]; ok {
				if !l.IsTxInTrunk(t.Txid) {
					add("tx_in_trunk", "IsTxInTrunk(%s)=false but it is in trunk block %s", tn, tb)
				}
				qt, err := l.QueryTransaction(t.Txid)
				if err != nil {
					add("tx_query", "QueryTransaction(%s) err=%v", tn, err)
				} else if nm.Of(qt.Blockid) != tb {
					add("tx_blockid", "QueryTransaction(%s).Blockid=%s, trunk block is %s", tn, nm.Of(qt.Blockid), tb)
				}
				qb, err := l.QueryBlockByTxid(t.Txid)
				if err != nil {
					add("tx_block", "QueryBlockByTxid(%s) err=%v", tn, err)
				} else if nm.Of(qb.Blockid) != tb {
					add("tx_block", "QueryBlockByTxid(%s)=%s, trunk block is %s", tn, nm.Of(qb.Blockid), tb)
				}
			} else {
				if l.IsTxInTrunk(t.Txid) {
					add("tx_in_trunk", "IsTxInTrunk(%s)=true but it occurs only on side branches", tn)
				}
			}
		}
	}
	// branch tips
	tips, err := l.GetBranchInfo([]byte{}, -1)
	if err != nil {
		add("branch_info", "GetBranchInfo err=%v", err)
	} else {
		var got []string
		for _, t := range tips {
			got = append(got, nm.Of([]byte(t)))
		}
		sort.Strings(got)
		want := ref.Leaves()
		if strings.Join(got, ",") != strings.Join(want, ",") {
			add("branch_info", "GetBranchInfo=%v, leaves of the stored tree=%v", got, want)
		}
	}
	// undo / todo paths for all stored pairs
	stored := ref.StoredSorted()
	for _, x := range stored {
		for _, y := range stored {
			undo, todo, err := l.FindUndoAndTodoBlocks(u.ID(x), u.ID(y))
			if err != nil {
				add("undo_todo", "FindUndoAndTodoBlocks(%s,%s) err=%v", x, y, err)
				continue
			}
			wu, wt := refUndoTodo(u, x, y)
			var gu, gt []string
			for _, b := range undo {
				gu = append(gu, nm.Of(b.Blockid))
			}
			for _, b := range todo {
				gt = append(gt, nm.Of(b.Blockid))
			}
			if strings.Join(gu, ",") != strings.Join(wu, ",") || strings.Join(gt, ",") != strings.Join(wt, ",") {
				add("undo_todo", "FindUndoAndTodoBlocks(%s,%s)=undo%v todo%v, reference undo%v todo%v", x, y, gu, gt, wu, wt)
			}
		}
	}
	// Dump
	rows, err := l.Dump()
	if err != nil {
		add("dump", "Dump err=%v", err)
	} else {
		cnt := 0
		for _, r := range rows {
			cnt += len(r)
		}
		if cnt != len(stored) {
			add("dump", "Dump lists %d blocks, %d stored", cnt, len(stored))
		}
	}
	return issues
}

func orDash(s string) string {
	if s == "" {
		return "-"
	}
	return s
}

// refUndoTodo: undo = path x -> lca (exclusive), newest first; todo = path
// y -> lca (exclusive), newest first (procTodoBlkForWalk consumes it reversed).
func refUndoTodo(u *Universe, x, y string) (undo, todo []string) {
	anc := map[string]bool{}
	for n := x; n != ""; n = u.Parent[n] {
		anc[n] = true
	}
	lca := ""
	for n := y; n != ""; n = u.Parent[n] {
		if anc[n] {
			lca = n
			break
		}
	}
	for n := x; n != lca; n = u.Parent[n] {
		undo = append(undo, n)
	}
	for n := y; n != lca; n = u.Parent[n] {
		todo = append(todo, n)
	}
	return
}

// LedgerObserve returns the answers of the public ledger queries for every
// block and transaction of the universe (plus extra block ids), as a map
// suitable for differential comparison (no reference model involved).
func LedgerObserve(l *ledger.Ledger, u *Universe, extra map[string][]byte, nameOf func([]byte) string) map[string]string {
	o := map[string]string{}
	meta := l.GetMeta()
	o["meta"] = fmt.Sprintf("root=%s tip=%s h=%d", nameOf(meta.RootBlockid), nameOf(meta.TipBlockid), meta.TrunkHeight)
	ids := map[string][]byte{}
	for _, n := range u.BOrder {
		ids[n] = u.ID(n)
	}
	for n, id := range extra {
		ids[n] = id
	}
	maxH := int64(0)
	for n, id := range ids {
		ex := l.ExistBlock(id)
		s := fmt.Sprintf("exist=%v", ex)
		if hdr, err := l.QueryBlockHeader(id); err == nil {
			s += fmt.Sprintf(" hdr[h=%d trunk=%v next=%s pre=%s]", hdr.Height, hdr.InTrunk, nameOf(hdr.NextHash), nameOf(hdr.PreHash))
			if hdr.Height > maxH {
				maxH = hdr.Height
			}
		} else {
			s += " hdr[err]"
		}
		if b, err := l.QueryBlock(id); err == nil {
			s += fmt.Sprintf(" blk[h=%d trunk=%v next=%s ntx=%d]", b.Height, b.InTrunk, nameOf(b.NextHash), len(b.Transactions))
		} else {
			s += " blk[err]"
		}
		o["block:"+n] = s
	}
	for h := int64(0); h <= maxH+1; h++ {
		if b, err := l.QueryBlockByHeight(h); err == nil {
			o[fmt.Sprintf("height:%d", h)] = nameOf(b.Blockid)
		} else {
			o[fmt.Sprintf("height:%d", h)] = "-"
		}
	}
	for _, tn := range u.TOrder {
		t := u.Tx(tn)
		s := fmt.Sprintf("intrunk=%v", l.IsTxInTrunk(t.Txid))
		if qt, err := l.QueryTransaction(t.Txid); err == nil {
			s += " blk=" + nameOf(qt.Blockid)
		} else {
			s += " absent"
		}
		o["ltx:"+tn] = s
	}
	if tips, err := l.GetBranchInfo([]byte{}, -1); err == nil {
		var got []string
		for _, t := range tips {
			got = append(got, nameOf([]byte(t)))
		}
		sort.Strings(got)
		o["branches"] = strings.Join(got, ",")
	} else {
		o["branches"] = "ERR"
	}
	return o
}
