package world

import (
	"encoding/json"
	"fmt"

	_ "github.com/xuperchain/xupercore/bcs/consensus/single"
	"github.com/xuperchain/xupercore/kernel/consensus"
	"github.com/xuperchain/xupercore/kernel/consensus/base"
	cctx "github.com/xuperchain/xupercore/kernel/consensus/context"
	"github.com/xuperchain/xupercore/kernel/consensus/def"
	"github.com/xuperchain/xupercore/kernel/engines/xuperos/agent"
	"github.com/xuperchain/xupercore/lib/timer"
)

// NewSingle builds the repository's `single` consensus over this node's ledger
// the way the pluggable consensus wires it from the fixture genesis (miner M,
// period 3000 ms, start height 1), with the node address of key `self`.
func (w *World) NewSingle(self string) (base.ConsensusImplInterface, error) {
	k := Keys[self]
	mk := Keys["M"]
	cc := cctx.ConsensusCtx{BcName: BCName, Crypto: Crypto, Ledger: agent.NewLedgerAgent(w.Chain),
		Address: &cctx.Address{Address: k.Address, PrivateKeyStr: k.PriJSON, PublicKeyStr: k.PubJSON, PrivateKey: k.Priv, PublicKey: &k.Priv.PublicKey}}
	cc.XLog = NopLogger{}
	cc.Timer = timer.NewXTimer()
	cfg, _ := json.Marshal(map[string]string{"version": "0", "miner": mk.Address, "period": "3000"})
	c, err := consensus.NewPluginConsensus(cc, def.ConsensusConfig{ConsensusName: "single", Config: string(cfg), StartHeight: 1, Index: 0})
	if err != nil || c == nil {
		return nil, fmt.Errorf("single consensus: %v", err)
	}
	return c, nil
}
