package world

import (
	"fmt"

	"github.com/golang/protobuf/proto"

	pb "github.com/xuperchain/xupercore/bcs/ledger/xledger/xldgpb"
	"github.com/xuperchain/xupercore/kernel/contract"
	"github.com/xuperchain/xupercore/verifshim/vhook"
)

// Universe is a fixed set of named transactions and blocks (a block tree)
// produced by a builder world running the honest producer path, so every block
// in it (except the ones registered through Bad*) is one an honest node could emit.
type Universe struct {
	Name   string
	Cfg    Config
	Hook   func(contract.Manager)
	Names  *Names
	blocks map[string][]byte // serialized
	txs    map[string][]byte
	Parent map[string]string // block name -> parent name
	Height map[string]int64
	BOrder []string // block creation order (parents first)
	TOrder []string
	// BlockTxs lists the tx names (award excluded) of each block, in order.
	BlockTxs map[string][]string
	// Bad marks blocks / txs an honest node would not emit.
	Bad map[string]bool
	// Genesis block name is "g".
}

// Block returns a fresh copy of a named block.
func (u *Universe) Block(name string) *pb.InternalBlock {
	buf, ok := u.blocks[name]
	if !ok {
		panic("universe " + u.Name + ": no block " + name)
	}
	b := &pb.InternalBlock{}
	if err := proto.Unmarshal(buf, b); err != nil {
		panic(err)
	}
	return b
}

// HasBlock reports whether the universe has a block of that name.
func (u *Universe) HasBlock(name string) bool { _, ok := u.blocks[name]; return ok }

// Tx returns a fresh copy of a named transaction.
func (u *Universe) Tx(name string) *pb.Transaction {
	buf, ok := u.txs[name]
	if !ok {
		panic("universe " + u.Name + ": no tx " + name)
	}
	t := &pb.Transaction{}
	if err := proto.Unmarshal(buf, t); err != nil {
		panic(err)
	}
	return t
}

// ID returns the block id of a named block.
func (u *Universe) ID(name string) []byte { return u.Block(name).Blockid }

// Chain returns the names genesis..name.
func (u *Universe) Chain(name string) []string {
	var rev []string
	for n := name; n != ""; n = u.Parent[n] {
		rev = append(rev, n)
	}
	out := make([]string, len(rev))
	for i, n := range rev {
		out[len(rev)-1-i] = n
	}
	return out
}

// NewWorld creates a fresh node for this universe (genesis only).
func (u *Universe) NewWorld() *World {
	w, err := New(u.Cfg, u.Hook)
	if err != nil {
		panic(err)
	}
	return w
}

// UB builds a universe.
type UB struct {
	U   *Universe
	W   *World
	cur string
	ts  int64
	// pool of names submitted since the last At/Block
	pending []string
}

// NewUniverse starts a builder.
func NewUniverse(name string, cfg Config, hook func(contract.Manager)) *UB {
	Init()
	vhook.Capture()
	w, err := New(cfg, hook)
	if err != nil {
		panic(err)
	}
	u := &Universe{Name: name, Cfg: cfg, Hook: hook, Names: NewNames(), blocks: map[string][]byte{}, txs: map[string][]byte{},
		Parent: map[string]string{}, Height: map[string]int64{}, BlockTxs: map[string][]string{}, Bad: map[string]bool{}}
	b := &UB{U: u, W: w, cur: "g", ts: 100}
	u.putBlock("g", "", w.Genesis)
	u.putTx("root", w.Genesis.Transactions[0])
	for n, k := range Keys {
		u.Names.Set([]byte(k.Address), "@"+n)
	}
	return b
}

func (u *Universe) putBlock(name, parent string, blk *pb.InternalBlock) {
	buf, err := proto.Marshal(blk)
	if err != nil {
		panic(err)
	}
	if _, dup := u.blocks[name]; dup {
		panic("duplicate block name " + name)
	}
	u.blocks[name] = buf
	u.Parent[name] = parent
	if parent != "" {
		u.Height[name] = u.Height[parent] + 1
	}
	u.BOrder = append(u.BOrder, name)
	u.Names.Set(blk.Blockid, name)
}

func (u *Universe) putTx(name string, tx *pb.Transaction) {
	c := CloneTx(tx)
	c.Blockid = nil
	buf, err := proto.Marshal(c)
	if err != nil {
		panic(err)
	}
	if _, dup := u.txs[name]; dup {
		panic("duplicate tx name " + name)
	}
	u.txs[name] = buf
	u.TOrder = append(u.TOrder, name)
	u.Names.Set(tx.Txid, name)
}

// Root returns the genesis coinbase transaction.
func (b *UB) Root() *pb.Transaction { return b.U.Tx("root") }

// At moves the builder's state machine to the named block (pool must be empty).
func (b *UB) At(name string) *UB {
	if len(b.pending) > 0 {
		panic("universe: At with pending txs")
	}
	// the builder may cross its own irreversible height: it prunes
	if err := b.W.State.Walk(b.U.ID(name), b.U.Cfg.Window > 0); err != nil {
		panic(fmt.Sprintf("universe %s: walk to %s: %v", b.U.Name, name, err))
	}
	vhook.Drain()
	b.cur = name
	return b
}

// Submit registers tx under name and submits it to the builder's pool; it must be accepted.
func (b *UB) Submit(name string, tx *pb.Transaction) *pb.Transaction {
	b.U.putTx(name, tx)
	if err := b.W.SubmitStrict(CloneTx(tx)); err != nil {
		panic(fmt.Sprintf("universe %s: tx %s refused by the builder: %v", b.U.Name, name, err))
	}
	b.pending = append(b.pending, name)
	return tx
}

// Resubmit submits an already registered tx again (same tx on another branch).
func (b *UB) Resubmit(name string) *pb.Transaction {
	tx := b.U.Tx(name)
	if err := b.W.SubmitStrict(CloneTx(tx)); err != nil {
		panic(fmt.Sprintf("universe %s: tx %s refused by the builder on resubmit: %v", b.U.Name, name, err))
	}
	b.pending = append(b.pending, name)
	return tx
}

// Transfer builds, registers and submits a token transfer.
func (b *UB) Transfer(name, from string, ins []In, outs []Out) *pb.Transaction {
	return b.Submit(name, BuildTx(TxSpec{Initiator: from, Ins: ins, Outs: outs, Nonce: name}))
}

// KV builds (pre-executing on the builder's current state), registers and
// submits a harness-contract transaction.
func (b *UB) KV(name, from, prog string, ins []In) *pb.Transaction {
	tx, _, err := b.W.BuildKVTx(from, prog, ins, name)
	if err != nil {
		panic(fmt.Sprintf("universe %s: kv tx %s: %v", b.U.Name, name, err))
	}
	return b.Submit(name, tx)
}

// Raw registers a transaction without submitting it (for conflicting / bad ones).
func (b *UB) Raw(name string, tx *pb.Transaction, bad bool) *pb.Transaction {
	b.U.putTx(name, tx)
	if bad {
		b.U.Bad[name] = true
	}
	return tx
}

// Block closes the pending transactions into a block on the current parent,
// confirms and plays it on the builder, and makes it the current block.
func (b *UB) Block(name, proposer string) *pb.InternalBlock {
	parent := b.U.Block(b.cur)
	var txs []*pb.Transaction
	for _, n := range b.pending {
		txs = append(txs, b.U.Tx(n))
	}
	b.ts++
	blk, err := b.W.FormatBlock(proposer, parent, txs, b.ts, name)
	if err != nil {
		panic(err)
	}
	stored := CloneBlock(blk)
	if ok, st := b.W.Recv(blk); !ok {
		panic(fmt.Sprintf("universe %s: builder refused block %s: %s", b.U.Name, name, st))
	}
	if err := b.W.State.PlayForMiner(blk.Blockid); err != nil {
		panic(fmt.Sprintf("universe %s: builder play of %s: %v", b.U.Name, name, err))
	}
	if p, _ := b.W.State.GetUnconfirmedTx(false); len(p) != 0 {
		panic(fmt.Sprintf("universe %s: builder pool not empty after block %s", b.U.Name, name))
	}
	b.U.putBlock(name, b.cur, stored)
	b.U.Names.Set(stored.Transactions[0].Txid, "award("+name+")")
	b.U.BlockTxs[name] = append([]string(nil), b.pending...)
	b.pending = nil
	b.cur = name
	return stored
}

// BadBlock registers a block formatted on parent with the given transactions
// without executing it anywhere.
func (b *UB) BadBlock(name, parent, proposer string, txs []*pb.Transaction, extraCoinbase bool) *pb.InternalBlock {
	p := b.U.Block(parent)
	b.ts++
	height := p.Height + 1
	list := []*pb.Transaction{b.W.AwardTx(proposer, height, name)}
	if extraCoinbase {
		list = append(list, b.W.AwardTx(proposer, height, name+"#2"))
	}
	for _, t := range txs {
		list = append(list, CloneTx(t))
	}
	k := Keys[proposer]
	blk, err := b.W.Ledger.FormatMinerBlock(list, []byte(k.Address), k.Priv, b.ts, 0, 0, p.Blockid, 0, b.W.State.GetTotal(), nil, nil, height)
	if err != nil {
		panic(err)
	}
	b.U.putBlock(name, parent, blk)
	b.U.Names.Set(blk.Transactions[0].Txid, "award("+name+")")
	b.U.Bad[name] = true
	return blk
}

// BadBlockRaw registers a block formatted on parent with exactly the given
// transaction list (the caller supplies the coinbase), without executing it.
func (b *UB) BadBlockRaw(name, parent, proposer string, list []*pb.Transaction) *pb.InternalBlock {
	p := b.U.Block(parent)
	b.ts++
	height := p.Height + 1
	var cl []*pb.Transaction
	for _, t := range list {
		cl = append(cl, CloneTx(t))
	}
	k := Keys[proposer]
	blk, err := b.W.Ledger.FormatMinerBlock(cl, []byte(k.Address), k.Priv, b.ts, 0, 0, p.Blockid, 0, b.W.State.GetTotal(), nil, nil, height)
	if err != nil {
		panic(err)
	}
	b.U.putBlock(name, parent, blk)
	b.U.Bad[name] = true
	return blk
}

// Done finishes building.
func (b *UB) Done() *Universe {
	if len(b.pending) > 0 {
		panic("universe: Done with pending txs")
	}
	b.W.Drop()
	return b.U
}
