package world

import (
	"fmt"
	"math/big"
	"strings"

	"github.com/xuperchain/xupercore/bcs/ledger/xledger/state/utxo/txhash"
	pb "github.com/xuperchain/xupercore/bcs/ledger/xledger/xldgpb"
	"github.com/xuperchain/xupercore/verifshim/vhook"
)

// Universe3Way: three branches from genesis plus a fork at a1.
//
//	g - a1 - a2 - a3
//	     \-- d2
//	g - b1 - b2 - b3
//	g - c1
//
// tS (A pays B) is on a1 and b1 (same transaction on both branches); tA2 spends
// tS's change on a2 only; tB2 is on b2 only; tD2 on d2.
// Bad blocks: cc2 (two coinbases, on a1), dup3 (on a2, repeats tS which is in
// its ancestor a1), o2 (its parent o1 is never offered: unknown parent).
func Universe3Way(withBad bool) *Universe { return Universe3WayW(withBad, 0) }

// Universe3WayW is Universe3Way with an irreversible slide window.
func Universe3WayW(withBad bool, window int) *Universe {
	cfg := DefaultConfig()
	cfg.Window = window
	name := "U-3way"
	if !withBad {
		name += "-honest"
	}
	if window > 0 {
		name = fmt.Sprintf("%s-w%d", name, window)
	}
	b := NewUniverse(name, cfg, RegisterVKV)
	root := b.Root()
	b.At("g")
	tS := b.Transfer("tS", "A", []In{{Tx: root, Offset: 0}}, []Out{{To: "B", Amount: "10"}, {To: "A", Amount: "990"}})
	b.Block("a1", "M")
	b.Transfer("tA2", "A", []In{{Tx: tS, Offset: 1}}, []Out{{To: "B", Amount: "20"}, {To: "A", Amount: "965"}, {To: "$", Amount: "3"}, {To: "$", Amount: "2"}}) // two fee outputs: payFee / undoPayFee treat every one
	b.Block("a2", "M")
	b.Transfer("tA3", "B", []In{{Tx: tS, Offset: 0}}, []Out{{To: "A", Amount: "10"}})
	b.Block("a3", "M")
	b.At("a1")
	b.Transfer("tD2", "A", []In{{Tx: tS, Offset: 1}}, []Out{{To: "C", Amount: "990"}})
	b.Block("d2", "P")
	b.At("g")
	b.Resubmit("tS")
	b.Block("b1", "P")
	b.Transfer("tB2", "B", []In{{Tx: root, Offset: 1}}, []Out{{To: "C", Amount: "500"}})
	b.Block("b2", "P")
	b.Block("b3", "P")
	b.At("g")
	b.Block("c1", "M")
	// unconfirmed candidates: a parent with two children spending different
	// outputs of it (pP conflicts with tS on A's genesis output), and a spender
	// of the fee output that tA2 pays to the proposer of a2
	b.At("g")
	pP := b.Raw("pP", BuildTx(TxSpec{Initiator: "A", Ins: []In{{Tx: root, Offset: 0}}, Outs: []Out{{To: "A", Amount: "600"}, {To: "A", Amount: "400"}}, Nonce: "pP"}), false)
	b.Raw("pC1", BuildTx(TxSpec{Initiator: "A", Ins: []In{{Tx: pP, Offset: 0}}, Outs: []Out{{To: "C", Amount: "600"}}, Nonce: "pC1"}), false)
	b.Raw("pC2", BuildTx(TxSpec{Initiator: "A", Ins: []In{{Tx: pP, Offset: 1}}, Outs: []Out{{To: "D", Amount: "399"}, {To: "$", Amount: "1"}}, Nonce: "pC2"}), false)
	tA2 := b.U.Tx("tA2")
	b.Raw("sFee", BuildTx(TxSpec{Initiator: "M", Ins: []In{{Tx: tA2, Offset: 2, Owner: "M"}}, Outs: []Out{{To: "B", Amount: "3"}}, Nonce: "sFee"}), false)
	if withBad {
		b.BadBlock("cc2", "a1", "M", nil, true)
		b.BadBlock("dup3", "a2", "M", []*pb.Transaction{b.U.Tx("tS")}, false)
		// a block that fails transaction verification AFTER the pool was reconciled
		// with it: tA2 conflicts with a pending tD2, tBadSig carries a corrupted signature
		tBad := b.U.Tx("tB2")
		tBad.InitiatorSigns[0].Sign[len(tBad.InitiatorSigns[0].Sign)-1] ^= 1
		tBad.AuthRequireSigns = tBad.InitiatorSigns
		tBad.Txid, _ = txhash.MakeTransactionID(tBad)
		b.Raw("tBadSig", tBad, true)
		b.BadBlock("bv2", "a1", "M", []*pb.Transaction{b.U.Tx("tA2"), tBad}, false)
		// the same one level up: a walk g -> bv3 applies a1 and a2 and stops at bv3
		b.BadBlock("bv3", "a2", "M", []*pb.Transaction{tBad}, false)
		// a block whose coinbase is a byte-identical copy of its parent's award
		// (no inputs: only the ledger's same-transaction-twice test stands in its way)
		b.BadBlockRaw("ra2", "a1", "M", []*pb.Transaction{b.U.Block("a1").Transactions[0]})
		b.BadBlock("o1", "g", "P", nil, false)
		b.BadBlock("o2", "o1", "P", nil, false)
		// a block whose two transactions, each valid alone, spend the same output (tS#1): only the
		// in-block duplicate test of the play path stands in its way, whatever the node's pool holds
		b.BadBlock("ds2", "a1", "M", []*pb.Transaction{b.U.Tx("tA2"), b.U.Tx("tD2")}, false)
	}
	return b.Done()
}

// UniverseKV: one key created, overwritten twice in one block, deleted,
// re-created; a second key only read; across a fork of depth 2.
//
//	g - k1 - k2 - k3 - k4
//	     \-- j2 - j3
//
// Extra (unconfirmed) transactions for submission: pW1, pW2 (two writers of k1
// at its k1-block version), pR (reader of k1 at that version), pT (plain transfer by B).
func UniverseKV() *Universe {
	b := NewUniverse("U-kv", DefaultConfig(), RegisterVKV)
	root := b.Root()
	change := func(tx *pb.Transaction) In { return In{Tx: tx, Offset: len(tx.TxOutputs) - 1} }
	b.At("g")
	kvA := b.KV("kvA", "A", "put k1 x", []In{{Tx: root, Offset: 0}})
	b.Block("k1", "M")
	kvB := b.KV("kvB", "A", "put k1 y", []In{change(kvA)})
	kvC := b.KV("kvC", "A", "get k1;put k1 z", []In{change(kvB)})
	kvR := b.KV("kvR", "B", "get k2", []In{{Tx: root, Offset: 1}})
	b.Block("k2", "M")
	kvD := b.KV("kvD", "A", "del k1", []In{change(kvC)})
	b.Block("k3", "P")
	b.KV("kvE", "A", "put k1 w;put k3 v", []In{change(kvD)})
	b.Block("k4", "P")
	b.At("k1")
	kvF := b.KV("kvF", "A", "put k2 q;get k1", []In{change(kvA)})
	b.Block("j2", "P")
	b.KV("kvG", "A", "del k1", []In{change(kvF)})
	b.Block("j3", "P")
	// a block that deletes k1 and re-creates it (the re-creator cites the version the deletion leaves)
	b.At("k1")
	pD1 := b.KV("pD1", "A", "del k1", []In{change(kvA)})
	b.KV("pRe", "B", "put k1 re", []In{{Tx: root, Offset: 1}})
	b.Block("kd2", "P")
	// pool candidates built at k1
	b.At("k1")
	pW1, _, err := b.W.BuildKVTx("B", "put k1 p1", []In{{Tx: root, Offset: 1}}, "pW1")
	if err != nil {
		panic(err)
	}
	b.Raw("pW1", pW1, false)
	// a block in which the deletion and an overwrite both supersede k1@kvA
	b.BadBlock("kdx2", "k1", "M", []*pb.Transaction{pD1, pW1}, false)
	pW2, _, err := b.W.BuildKVTx("A", "put k1 p2", []In{change(kvA)}, "pW2")
	if err != nil {
		panic(err)
	}
	b.Raw("pW2", pW2, false)
	pR, _, err := b.W.BuildKVTx("B", "get k1", []In{{Tx: root, Offset: 1}}, "pR")
	if err != nil {
		panic(err)
	}
	b.Raw("pR", pR, false)
	_ = kvR
	// a re-creation of the deleted k1 that does not cite the delete marker (built at k3, where k1 is
	// deleted; the reference of its read of k1 is blanked and the transaction signed again): invalid,
	// it would cut the key's version chain
	b.At("k3")
	pBlind, _, err := b.W.BuildKVTx("B", "put k1 blind", []In{change(kvR)}, "pBlind") // B's output of k2
	if err != nil {
		panic(err)
	}
	for _, in := range pBlind.TxInputsExt {
		if string(in.Key) == "k1" {
			in.RefTxid, in.RefOffset = nil, 0
		}
	}
	SignTx(pBlind, "B", nil)
	b.Raw("pBlind", pBlind, false) // valid exactly where k1 was never written
	b.At("k4")
	return b.Done()
}

// UniverseKVOrphan: a writer that is confirmed on a branch which loses, and
// can be submitted again on the winning branch (it spends an output nobody
// else touches and reads the version both branches share).
//
//	g - m1 - m2            m1: kvA (A: put k1 x)   m2: kvT (B: put k1 t;put k2 t)
//	     \-- n2 - n3 - n4  n2, n3: award only     n4: kvT again
func UniverseKVOrphan() *Universe {
	b := NewUniverse("U-kv-orphan", DefaultConfig(), RegisterVKV)
	root := b.Root()
	b.At("g")
	b.KV("kvA", "A", "put k1 x", []In{{Tx: root, Offset: 0}})
	b.Block("m1", "M")
	b.KV("kvT", "B", "put k1 t;put k2 t", []In{{Tx: root, Offset: 1}})
	b.Block("m2", "M")
	b.At("m1")
	b.Block("n2", "P")
	b.Block("n3", "P")
	b.Resubmit("kvT")
	b.Block("n4", "P")
	return b.Done()
}

// UniverseKVDelDel: a key deleted while it is already deleted, on a branch
// that loses (the second delete is rolled back), and a writer that sits at
// different heights on the two branches.
//
//	g - m1 - m2 - m3 - m4      m1: kvA (A: put k1 x)  m2: kvD1 (A: del k1)  m3: kvD2 (A: del k1 again)  m4: kvT (B: put k2 t)
//	          \-- n3 - n4 - n5  n3: kvT              n4: kvP (A: put k1 y)  n5: award only
func UniverseKVDelDel() *Universe {
	b := NewUniverse("U-kv-deldel", DefaultConfig(), RegisterVKV)
	root := b.Root()
	change := func(tx *pb.Transaction) In { return In{Tx: tx, Offset: len(tx.TxOutputs) - 1} }
	b.At("g")
	kvA := b.KV("kvA", "A", "put k1 x", []In{{Tx: root, Offset: 0}})
	b.Block("m1", "M")
	kvD1 := b.KV("kvD1", "A", "del k1", []In{change(kvA)})
	b.Block("m2", "M")
	b.KV("kvD2", "A", "del k1", []In{change(kvD1)})
	b.Block("m3", "M")
	b.KV("kvT", "B", "put k2 t", []In{{Tx: root, Offset: 1}})
	b.Block("m4", "M")
	b.At("m2")
	b.Resubmit("kvT")
	b.Block("n3", "P")
	b.KV("kvP", "A", "put k1 y", []In{change(kvD1)})
	b.Block("n4", "P")
	b.Block("n5", "P")
	return b.Done()
}

// UniverseKVPool: pool transactions that depend on each other through key
// versions only, and a peer block that conflicts with the writer.
//
//	g - q1 - q2      q1: kvA (A: put k1 x)    q2: tQ (B spends the output pP spends)
//
// Pool candidates at q1: pP (B: put k2 p), and readers pre-executed while pP is
// pending, paid by other accounts (no token link to pP): rC (C: get k1;get k2 -
// a version from a confirmed writer BEFORE the version from pP), rD (D: get k2),
// wD (D: get k0;put k3 w;get k2 - a never-written key first).
func UniverseKVPool() *Universe {
	cfg := DefaultConfig()
	cfg.Quotas = map[string]string{"A": "1000", "B": "1000", "C": "1000", "D": "1000"}
	b := NewUniverse("U-kv-pool", cfg, RegisterVKV)
	root := b.Root()
	b.At("g")
	b.KV("kvA", "A", "put k1 x", []In{{Tx: root, Offset: 0}})
	b.Block("q1", "M")
	b.Transfer("tQ", "B", []In{{Tx: root, Offset: 1}}, []Out{{To: "A", Amount: "1000"}})
	b.Block("q2", "P")
	b.At("q1")
	mk := func(name, who, prog string, in In) *pb.Transaction {
		tx, _, err := b.W.BuildKVTx(who, prog, []In{in}, name)
		if err != nil {
			panic(err)
		}
		return b.Raw(name, tx, false)
	}
	pP := mk("pP", "B", "put k2 p", In{Tx: root, Offset: 1})
	if err := b.W.SubmitStrict(CloneTx(pP)); err != nil {
		panic(err)
	}
	mk("rC", "C", "get k1;get k2", In{Tx: root, Offset: 2})
	mk("rD", "D", "get k2", In{Tx: root, Offset: 3})
	mk("wD", "D", "get k0;put k3 w;get k2", In{Tx: root, Offset: 3})
	if err := b.W.State.Walk(b.U.ID("g"), false); err != nil {
		panic(err)
	}
	if err := b.W.State.Walk(b.U.ID("q1"), false); err != nil {
		panic(err)
	}
	vhook.Discard()
	return b.Done()
}

// UniverseAmt: zero-value output, frozen outputs (future height and -1),
// amounts beyond 64 bit, leading-zero amount bytes in an output, multi-input
// multi-output, fee outputs.
//
//	g - x1 - x2 - x3
//	 \-- y1 - y2
func UniverseAmt() *Universe {
	cfg := DefaultConfig()
	cfg.Quotas = map[string]string{"A": "18446744073709552616", "B": "500"} // 2^64+1000
	b := NewUniverse("U-amt", cfg, RegisterVKV)
	root := b.Root()
	b.At("g")
	// zero-value output + big change + fee
	tZ := b.Transfer("tZ", "A", []In{{Tx: root, Offset: 0}}, []Out{{To: "B", Amount: "0"}, {To: "C", Amount: "18446744073709551619"}, {To: "A", Amount: "990"}, {To: "$", Amount: "7"}, {To: "D", Raw: []byte{0}}, {To: "D", Raw: []byte{0, 0}}}) // zero also spelled 0x00 and 0x0000
	// frozen outputs: until height 2, and forever; leading-zero amount bytes
	tF := b.Transfer("tF", "B", []In{{Tx: root, Offset: 1}}, []Out{{To: "C", Amount: "100", Frozen: 2}, {To: "D", Amount: "50", Frozen: -1}, {To: "B", Raw: []byte{0, 5}}, {To: "B", Amount: "345"}})
	b.Block("x1", "M")
	// multi-input multi-output: spends leading-zero output and plain one
	tM := b.Transfer("tM", "B", []In{{Tx: tF, Offset: 2}, {Tx: tF, Offset: 3}}, []Out{{To: "A", Amount: "300"}, {To: "B", Amount: "49"}, {To: "$", Amount: "1"}})
	b.Block("x2", "M")
	// spends the output frozen until height 2 (ledger height is 2 now) and the big one
	b.Transfer("tU", "C", []In{{Tx: tF, Offset: 0}, {Tx: tZ, Offset: 1}}, []Out{{To: "A", Amount: "18446744073709551719"}})
	b.Block("x3", "P")
	b.At("g")
	b.Resubmit("tF")
	b.Block("y1", "P")
	b.Resubmit("tM")
	b.Block("y2", "P")
	// refusable candidates
	b.At("x1")
	b.Raw("sFrozen", BuildTx(TxSpec{Initiator: "D", Ins: []In{{Tx: tF, Offset: 1}}, Outs: []Out{{To: "A", Amount: "50"}}, Nonce: "sFrozen"}), true)
	b.Raw("sUnbalanced", BuildTx(TxSpec{Initiator: "A", Ins: []In{{Tx: tZ, Offset: 2}}, Outs: []Out{{To: "B", Amount: "991"}}, Nonce: "sUnbalanced"}), true)
	b.Raw("sA", BuildTx(TxSpec{Initiator: "A", Ins: []In{{Tx: tZ, Offset: 2}}, Outs: []Out{{To: "B", Amount: "980"}, {To: "$", Amount: "10"}}, Nonce: "sA"}), false)
	b.Raw("sA2", BuildTx(TxSpec{Initiator: "A", Ins: []In{{Tx: tZ, Offset: 2}}, Outs: []Out{{To: "D", Amount: "990"}}, Nonce: "sA2"}), false)
	// cited input amounts that are not the canonical bytes of the output's amount: zero bytes appended
	// (another number) and prepended (the same number, another spelling); both must be refused
	for _, v := range []struct {
		name string
		f    func(a []byte) []byte
	}{{"sPadTrail", func(a []byte) []byte { return append(append([]byte{}, a...), 0) }}, {"sPadLead", func(a []byte) []byte { return append([]byte{0}, a...) }}} {
		t := BuildTx(TxSpec{Initiator: "A", Ins: []In{{Tx: tZ, Offset: 2}}, Outs: []Out{{To: "B", Amount: "980"}, {To: "$", Amount: "10"}}, Nonce: v.name})
		t.TxInputs[0].Amount = v.f(t.TxInputs[0].Amount)
		SignTx(t, "A", nil)
		b.Raw(v.name, t, true)
	}
	_ = tM
	return b.Done()
}

// UniverseC12: four funded identities and one key written in block k1, with
// independent candidate transactions for concurrency patterns:
// wB, wC (writers of k1 at its k1 version), rD, rA (readers of it), sB1, sB2
// (two spenders of B's genesis output), tC (independent transfer by C).
//
//	g - k1 - k2 (k2 carries only the award)
func UniverseC12() *Universe {
	cfg := DefaultConfig()
	cfg.Quotas = map[string]string{"A": "1000", "B": "1000", "C": "1000", "D": "1000"}
	b := NewUniverse("U-c12", cfg, RegisterVKV)
	root := b.Root()
	b.At("g")
	kvA := b.KV("kvA", "A", "put k1 x", []In{{Tx: root, Offset: 0}})
	// B gets two more outputs (multi-input spends that cite a shared output at another position)
	chg := new(big.Int).SetBytes(kvA.TxOutputs[len(kvA.TxOutputs)-1].Amount)
	tSp := b.Transfer("tSp", "A", []In{{Tx: kvA, Offset: len(kvA.TxOutputs) - 1}}, []Out{{To: "B", Amount: "100"}, {To: "B", Amount: "100"}, {To: "A", Amount: new(big.Int).Sub(chg, big.NewInt(200)).String()}})
	b.Block("k1", "M")
	b.Block("k2", "P")
	b.At("k1")
	b.Block("j2", "M") // a sibling of k2 (two blocks that extend the same tip)
	b.At("k1")
	mk := func(name, who, prog string, in In) {
		tx, _, err := b.W.BuildKVTx(who, prog, []In{in}, name)
		if err != nil {
			panic(err)
		}
		b.Raw(name, tx, false)
	}
	mk("wB", "B", "put k1 p1", In{Tx: root, Offset: 1})
	mk("wC", "C", "put k1 p2", In{Tx: root, Offset: 2})
	mk("rD", "D", "get k1", In{Tx: root, Offset: 3})
	mk("rA", "A", "get k1", In{Tx: tSp, Offset: 2})
	// a writer of k1 that first reads another key and pays from C's output, and the two
	// transactions that need exactly the keys it does not share with wB
	mk("wCk0", "C", "get k0;put k1 v", In{Tx: root, Offset: 2})
	mk("wD0", "D", "put k0 z", In{Tx: root, Offset: 3})
	// the output sB1 / sB2 spend, cited at input position 1
	b.Raw("sB3", BuildTx(TxSpec{Initiator: "B", Ins: []In{{Tx: tSp, Offset: 0}, {Tx: root, Offset: 1}}, Outs: []Out{{To: "D", Amount: "1100"}}, Nonce: "sB3"}), false)
	b.Raw("sB4", BuildTx(TxSpec{Initiator: "B", Ins: []In{{Tx: tSp, Offset: 1}, {Tx: tSp, Offset: 0}}, Outs: []Out{{To: "D", Amount: "200"}}, Nonce: "sB4"}), false)
	b.Raw("sB5", BuildTx(TxSpec{Initiator: "B", Ins: []In{{Tx: tSp, Offset: 0}}, Outs: []Out{{To: "C", Amount: "100"}}, Nonce: "sB5"}), false)
	b.Raw("sB6", BuildTx(TxSpec{Initiator: "B", Ins: []In{{Tx: root, Offset: 1}, {Tx: tSp, Offset: 0}}, Outs: []Out{{To: "C", Amount: "1100"}}, Nonce: "sB6"}), false)
	b.Raw("sB1", BuildTx(TxSpec{Initiator: "B", Ins: []In{{Tx: root, Offset: 1}}, Outs: []Out{{To: "A", Amount: "1000"}}, Nonce: "sB1"}), false)
	b.Raw("sB2", BuildTx(TxSpec{Initiator: "B", Ins: []In{{Tx: root, Offset: 1}}, Outs: []Out{{To: "C", Amount: "999"}, {To: "$", Amount: "1"}}, Nonce: "sB2"}), false)
	b.Raw("tC", BuildTx(TxSpec{Initiator: "C", Ins: []In{{Tx: root, Offset: 2}}, Outs: []Out{{To: "D", Amount: "1000"}}, Nonce: "tC"}), false)
	return b.Done()
}

// UniverseC13: pool families for the producer check, built at block k1
// (k1 carries kvA = "put k1 x" by A). Four funded identities.
//
//	chain:   c1 (B pays C) <- c2 (C pays D from c1) <- c3 (D pays A from c2)
//	diamond: d1 (B splits) <- d2, d3 <- d4 (spends d2 and d3)
//	readers: rD, rC (read k1@kvA), wB (writes k1)       -- reader/writer sharing
//	wr:      wB, rC2 (reads k1@wB; built after wB)      -- writer then reader of the new version
//	fees:    fB (B pays fee 3), fC (C pays fee 2), tD (D plain transfer)
func UniverseC13() *Universe {
	cfg := DefaultConfig()
	cfg.Quotas = map[string]string{"A": "1000", "B": "1000", "C": "1000", "D": "1000"}
	b := NewUniverse("U-c13", cfg, RegisterVKV)
	root := b.Root()
	b.At("g")
	kvA := b.KV("kvA", "A", "put k1 x", []In{{Tx: root, Offset: 0}})
	b.Block("k1", "M")
	b.At("k1")
	raw := func(name string, tx *pb.Transaction) *pb.Transaction { return b.Raw(name, tx, false) }
	tr := func(name, from string, ins []In, outs []Out) *pb.Transaction {
		return raw(name, BuildTx(TxSpec{Initiator: from, Ins: ins, Outs: outs, Nonce: name}))
	}
	// chain
	c1 := tr("c1", "B", []In{{Tx: root, Offset: 1}}, []Out{{To: "C", Amount: "1000"}})
	c2 := tr("c2", "C", []In{{Tx: c1, Offset: 0}}, []Out{{To: "D", Amount: "999"}, {To: "$", Amount: "1"}})
	tr("c3", "D", []In{{Tx: c2, Offset: 0}}, []Out{{To: "A", Amount: "999"}})
	// diamond
	d1 := tr("d1", "B", []In{{Tx: root, Offset: 1}}, []Out{{To: "C", Amount: "400"}, {To: "D", Amount: "600"}})
	d2 := tr("d2", "C", []In{{Tx: d1, Offset: 0}}, []Out{{To: "A", Amount: "400"}})
	d3 := tr("d3", "D", []In{{Tx: d1, Offset: 1}}, []Out{{To: "A", Amount: "600"}})
	tr("d4", "A", []In{{Tx: d2, Offset: 0}, {Tx: d3, Offset: 0}}, []Out{{To: "B", Amount: "998"}, {To: "$", Amount: "2"}})
	// readers and writer of k1
	mk := func(name, who, prog string, in In) *pb.Transaction {
		tx, _, err := b.W.BuildKVTx(who, prog, []In{in}, name)
		if err != nil {
			panic(err)
		}
		return raw(name, tx)
	}
	mk("rD", "D", "get k1", In{Tx: root, Offset: 3})
	mk("rC", "C", "get k1", In{Tx: root, Offset: 2})
	wB := mk("wB", "B", "put k1 p1", In{Tx: root, Offset: 1})
	// reader of the new version: pre-executed with wB pending on the builder
	if err := b.W.SubmitStrict(CloneTx(wB)); err != nil {
		panic(err)
	}
	mk("rC2", "C", "get k1", In{Tx: root, Offset: 2})
	mk("wD2", "D", "get k1;put k2 q", In{Tx: root, Offset: 3})
	// drop the builder's pool again
	if err := b.W.State.Walk(b.U.ID("g"), false); err != nil {
		panic(err)
	}
	if err := b.W.State.Walk(b.U.ID("k1"), false); err != nil {
		panic(err)
	}
	vhook.Discard()
	// a deleter and, pre-executed while it is pending, a re-creator and a second deleter of the key:
	// both consume the version the deletion leaves
	dB := mk("dB", "B", "del k1", In{Tx: root, Offset: 1})
	if err := b.W.SubmitStrict(CloneTx(dB)); err != nil {
		panic(err)
	}
	mk("pC3", "C", "put k1 again", In{Tx: root, Offset: 2})
	mk("dD3", "D", "del k1", In{Tx: root, Offset: 3})
	if err := b.W.State.Walk(b.U.ID("g"), false); err != nil {
		panic(err)
	}
	if err := b.W.State.Walk(b.U.ID("k1"), false); err != nil {
		panic(err)
	}
	vhook.Discard()
	// fee payers
	tr("fB", "B", []In{{Tx: root, Offset: 1}}, []Out{{To: "A", Amount: "997"}, {To: "$", Amount: "3"}})
	tr("fC", "C", []In{{Tx: root, Offset: 2}}, []Out{{To: "A", Amount: "998"}, {To: "$", Amount: "2"}})
	tr("tD", "D", []In{{Tx: root, Offset: 3}}, []Out{{To: "B", Amount: "1000"}})
	_ = kvA
	return b.Done()
}

// UniverseC13Big: 1 MB blocks and a dependency chain of three 300 KB
// transfers followed by a tiny one, so that the pool does not fit one block:
// b1 (B pays C) <- b2 (C pays D) <- b3 (D pays A) <- b4 (A pays B, tiny); tD2 is
// an independent small transfer by D's other identity (A's genesis output).
func UniverseC13Big() *Universe {
	cfg := DefaultConfig()
	cfg.Quotas = map[string]string{"A": "1000", "B": "1000", "C": "1000", "D": "1000"}
	cfg.MaxBlockSizeMB = 1
	b := NewUniverse("U-c13big", cfg, RegisterVKV)
	root := b.Root()
	b.At("g")
	b.Block("k1", "M")
	b.At("k1")
	big := strings.Repeat("x", 300*1024)
	tr := func(name, from string, ins []In, outs []Out, desc string) *pb.Transaction {
		return b.Raw(name, BuildTx(TxSpec{Initiator: from, Ins: ins, Outs: outs, Nonce: name, Desc: desc}), false)
	}
	b1 := tr("b1", "B", []In{{Tx: root, Offset: 1}}, []Out{{To: "C", Amount: "1000"}}, big)
	b2 := tr("b2", "C", []In{{Tx: b1, Offset: 0}}, []Out{{To: "D", Amount: "1000"}}, big)
	b3 := tr("b3", "D", []In{{Tx: b2, Offset: 0}}, []Out{{To: "A", Amount: "1000"}}, big)
	tr("b4", "A", []In{{Tx: b3, Offset: 0}}, []Out{{To: "B", Amount: "1000"}}, "")
	tr("tA", "A", []In{{Tx: root, Offset: 0}}, []Out{{To: "D", Amount: "999"}, {To: "$", Amount: "1"}}, "")
	return b.Done()
}
