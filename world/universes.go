package world

import (
	pb "github.com/xuperchain/xupercore/bcs/ledger/xledger/xldgpb"
)

// Universe3Way: three branches from genesis plus a fork at a1.
//
//	g - a1 - a2 - a3
//	     \-- d2
//	g - b1 - b2 - b3
//	g - c1
//
// tS (A pays B) is on a1 and b1 (same transaction on both branches); tA2 spends
// tS's change on a2 only; tB2 is on b2 only; tD2 on d2.
// Bad blocks: cc2 (two coinbases, on a1), dup3 (on a2, repeats tS which is in
// its ancestor a1), o2 (its parent o1 is never offered: unknown parent).
func Universe3Way(withBad bool) *Universe {
	b := NewUniverse("U-3way", DefaultConfig(), RegisterVKV)
	root := b.Root()
	b.At("g")
	tS := b.Transfer("tS", "A", []In{{Tx: root, Offset: 0}}, []Out{{To: "B", Amount: "10"}, {To: "A", Amount: "990"}})
	b.Block("a1", "M")
	b.Transfer("tA2", "A", []In{{Tx: tS, Offset: 1}}, []Out{{To: "B", Amount: "20"}, {To: "A", Amount: "965"}, {To: "$", Amount: "5"}})
	b.Block("a2", "M")
	b.Transfer("tA3", "B", []In{{Tx: tS, Offset: 0}}, []Out{{To: "A", Amount: "10"}})
	b.Block("a3", "M")
	b.At("a1")
	b.Transfer("tD2", "A", []In{{Tx: tS, Offset: 1}}, []Out{{To: "C", Amount: "990"}})
	b.Block("d2", "P")
	b.At("g")
	b.Resubmit("tS")
	b.Block("b1", "P")
	b.Transfer("tB2", "B", []In{{Tx: root, Offset: 1}}, []Out{{To: "C", Amount: "500"}})
	b.Block("b2", "P")
	b.Block("b3", "P")
	b.At("g")
	b.Block("c1", "M")
	if withBad {
		b.BadBlock("cc2", "a1", "M", nil, true)
		b.BadBlock("dup3", "a2", "M", []*pb.Transaction{b.U.Tx("tS")}, false)
		b.BadBlock("o1", "g", "P", nil, false)
		b.BadBlock("o2", "o1", "P", nil, false)
	}
	return b.Done()
}
