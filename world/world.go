// Package world is the deterministic chain fixture: fixed key pairs, a real
// Ledger + State + contract manager (xkernel driver only) + ACL / govern /
// proposal / timer managers wired as kernel/engines/xuperos/agent/rely.go does,
// all over the in-memory vkv engine.
package world

import (
	"crypto/ecdsa"
	"fmt"
	"os"
	"path/filepath"
	"sync"

	lconf "github.com/xuperchain/xupercore/bcs/ledger/xledger/config"
	"github.com/xuperchain/xupercore/bcs/ledger/xledger/ledger"
	"github.com/xuperchain/xupercore/bcs/ledger/xledger/state"
	sctxpkg "github.com/xuperchain/xupercore/bcs/ledger/xledger/state/context"
	txn "github.com/xuperchain/xupercore/bcs/ledger/xledger/tx"
	pb "github.com/xuperchain/xupercore/bcs/ledger/xledger/xldgpb"
	xconf "github.com/xuperchain/xupercore/kernel/common/xconfig"
	"github.com/xuperchain/xupercore/kernel/contract"
	_ "github.com/xuperchain/xupercore/kernel/contract/kernel"
	_ "github.com/xuperchain/xupercore/kernel/contract/manager"
	governToken "github.com/xuperchain/xupercore/kernel/contract/proposal/govern_token"
	"github.com/xuperchain/xupercore/kernel/contract/proposal/propose"
	timerTask "github.com/xuperchain/xupercore/kernel/contract/proposal/timer"
	"github.com/xuperchain/xupercore/kernel/engines/xuperos"
	"github.com/xuperchain/xupercore/kernel/engines/xuperos/agent"
	"github.com/xuperchain/xupercore/kernel/engines/xuperos/common"
	"github.com/xuperchain/xupercore/kernel/permission/acl"
	aclBase "github.com/xuperchain/xupercore/kernel/permission/acl/base"
	actx "github.com/xuperchain/xupercore/kernel/permission/acl/context"
	cryptoClient "github.com/xuperchain/xupercore/lib/crypto/client"
	cryptoBase "github.com/xuperchain/xupercore/lib/crypto/client/base"
	"github.com/xuperchain/xupercore/lib/logs"
	"github.com/xuperchain/xupercore/lib/timer"

	"verif/engine/vkv"
)

// BCName is the chain name used by every fixture.
const BCName = "xuper"

// NopLogger implements logs.Logger and discards everything.
type NopLogger struct{}

func (NopLogger) GetLogId() string                           { return "v" }
func (NopLogger) SetCommField(key string, value interface{}) {}
func (NopLogger) SetInfoField(key string, value interface{}) {}
func (NopLogger) Error(msg string, ctx ...interface{})       {}
func (NopLogger) Warn(msg string, ctx ...interface{})        {}
func (NopLogger) Info(msg string, ctx ...interface{})        {}
func (NopLogger) Trace(msg string, ctx ...interface{})       {}
func (NopLogger) Debug(msg string, ctx ...interface{})       {}

// Key is one fixed identity.
type Key struct {
	Name    string
	Address string
	PubJSON string
	PriJSON string
	Priv    *ecdsa.PrivateKey
}

var (
	initOnce sync.Once
	// Crypto is the default crypto client.
	Crypto cryptoBase.CryptoClient
	// Keys by symbolic name: A, B users; M producing node; P peer producer; C, D extras.
	Keys = map[string]*Key{}
	// AddrName maps address -> symbolic name.
	AddrName = map[string]string{}
)

// ScratchDir is where logs and any on-disk scratch go.
func ScratchDir() string {
	if d := os.Getenv("VERIF_SCRATCH"); d != "" {
		return d
	}
	return "/verif/.scratch"
}

// Init sets up logging, crypto and the fixed keys. Idempotent.
func Init() {
	initOnce.Do(func() {
		dir := filepath.Join(ScratchDir(), fmt.Sprintf("logs-%d", os.Getpid()))
		os.MkdirAll(dir, 0755)
		cfg := filepath.Join(dir, "log.yaml")
		os.WriteFile(cfg, []byte("module: verif\nfilename: verif\nfmt: logfmt\nlevel: crit\nrotateInterval: 0\nrotateBackups: 0\nconsole: false\nasync: false\nbufSize: 10\n"), 0644)
		logs.InitLog(cfg, dir)
		var err error
		Crypto, err = cryptoClient.CreateCryptoClient(cryptoClient.CryptoTypeDefault)
		if err != nil {
			panic(err)
		}
		for _, n := range []string{"A", "B", "C", "D", "M", "P", "V1", "V2", "V3", "V4", "V5", "V6", "V7", "V8", "V9", "V10", "X"} {
			seed := []byte("verif-fixed-seed-0123456789abcdef-" + n + "-padpadpadpadpadpadpadpadpad")
			pk, err := Crypto.GenerateKeyBySeed(seed)
			if err != nil {
				panic(err)
			}
			addr, err := Crypto.GetAddressFromPublicKey(&pk.PublicKey)
			if err != nil {
				panic(err)
			}
			pub, err := Crypto.GetEcdsaPublicKeyJsonFormatStr(pk)
			if err != nil {
				panic(err)
			}
			pri, err := Crypto.GetEcdsaPrivateKeyJsonFormatStr(pk)
			if err != nil {
				panic(err)
			}
			Keys[n] = &Key{Name: n, Address: addr, PubJSON: pub, PriJSON: pri, Priv: pk}
			AddrName[addr] = n
		}
	})
}

// Addr returns the address of a symbolic identity.
func Addr(name string) string { return Keys[name].Address }

// Config selects genesis parameters.
type Config struct {
	// Quotas per symbolic identity, applied in the order A, B, C, D.
	Quotas map[string]string
	Award  string
	Window int // irreversibleslidewindow
	NoFee  bool
	// Consensus genesis config name ("single" default).
	MaxBlockSizeMB int
	// NewAccountGas
	NewAccountGas int64
	// Reserved: JSON array for the genesis "reserved_contracts" (requests the chain puts in front of every transaction)
	Reserved string
	// award decay: the award is multiplied by DecayRatio every DecayGap heights (0: no decay)
	DecayGap   int64
	DecayRatio string
}

// DefaultConfig gives A 1000 and B 500, award 100, no window.
func DefaultConfig() Config {
	return Config{Quotas: map[string]string{"A": "1000", "B": "500"}, Award: "100", MaxBlockSizeMB: 16, NewAccountGas: 10}
}

// GenesisJSON renders the genesis configuration.
func (c Config) GenesisJSON() []byte {
	Init()
	pre := ""
	for _, n := range []string{"A", "B", "C", "D"} {
		q, ok := c.Quotas[n]
		if !ok {
			continue
		}
		if pre != "" {
			pre += ","
		}
		pre += fmt.Sprintf(`{"address":"%s","quota":"%s"}`, Addr(n), q)
	}
	mbs := c.MaxBlockSizeMB
	if mbs == 0 {
		mbs = 16
	}
	reserved := ""
	if c.Reserved != "" {
		reserved = "\n\"reserved_contracts\":" + c.Reserved + ","
	}
	gap, ratio := int64(31536000), "1"
	if c.DecayGap > 0 {
		gap, ratio = c.DecayGap, c.DecayRatio
	}
	return []byte(fmt.Sprintf(`{"version":"1","predistribution":[%s],"maxblocksize":"%d","award":"%s","decimals":"8","nofee":%v,
"award_decay":{"height_gap":%d,"ratio":%s},
"gas_price":{"cpu_rate":1000,"mem_rate":1000000,"disk_rate":1,"xfee_rate":1},
"new_account_resource_amount":%d,
"irreversibleslidewindow":"%d",%s
"genesis_consensus":{"name":"single","config":{"miner":"%s","period":3000}}}`,
		pre, mbs, c.Award, c.NoFee, gap, ratio, c.NewAccountGas, c.Window, reserved, Addr("M")))
}

// World is one node: ledger + state + managers over one vkv space.
type World struct {
	Cfg    Config
	Space  *vkv.Space
	Env    *xconf.EnvConf
	Ledger *ledger.Ledger
	State  *state.State
	Chain  *common.ChainCtx
	// Node is the real xuperos.Chain object over Chain (PreExec / SubmitTx).
	Node    *xuperos.Chain
	Genesis *pb.InternalBlock
	Log     logs.Logger
	// KernelHook, if set, is called with the contract manager each time the
	// managers are (re)built so a harness can register its own kernel methods.
	KernelHook func(contract.Manager)
}

func ledgerConf() *lconf.XLedgerConf {
	return &lconf.XLedgerConf{
		KVEngineType: vkv.EngineName,
		StorageType:  "single",
		Utxo:         lconf.UtxoConfig{CacheSize: 1000, TmpLockSeconds: 60},
	}
}

func envFor(sp *vkv.Space) *xconf.EnvConf {
	e := xconf.GetDefEnvConf()
	e.RootPath = sp.Root()
	return e
}

// genesis blocks are deterministic (no signature, no timestamp): memoise per config.
var (
	genMu    sync.Mutex
	genCache = map[string]*pb.InternalBlock{}
)

// New creates a fresh world: ledger with the genesis block confirmed, state
// with the genesis block played, managers wired.
func New(cfg Config, hook func(contract.Manager)) (*World, error) {
	Init()
	w := &World{Cfg: cfg, Space: vkv.NewSpace(), Log: NopLogger{}, KernelHook: hook}
	w.Env = envFor(w.Space)
	gj := cfg.GenesisJSON()
	lctx := &ledger.LedgerCtx{EnvCfg: w.Env, LedgerCfg: ledgerConf(), BCName: BCName}
	lctx.XLog = w.Log
	lctx.Timer = timer.NewXTimer()
	leg, err := ledger.CreateLedger(lctx, gj)
	if err != nil {
		return nil, fmt.Errorf("create ledger: %v", err)
	}
	rootTx, err := txn.GenerateRootTx(gj)
	if err != nil {
		return nil, err
	}
	gb, err := leg.FormatRootBlock([]*pb.Transaction{rootTx})
	if err != nil {
		return nil, err
	}
	if st := leg.ConfirmBlock(gb, true); !st.Succ {
		return nil, fmt.Errorf("confirm genesis failed: %v", st.Error)
	}
	w.Ledger = leg
	w.Genesis = gb
	if err := w.openState(); err != nil {
		return nil, err
	}
	if err := w.State.Play(gb.Blockid); err != nil {
		return nil, fmt.Errorf("play genesis: %v", err)
	}
	return w, nil
}

// Open opens a world on an existing space (after a restart or on a crash image).
func Open(cfg Config, sp *vkv.Space, hook func(contract.Manager)) (*World, error) {
	Init()
	w := &World{Cfg: cfg, Space: sp, Log: NopLogger{}, KernelHook: hook}
	w.Env = envFor(sp)
	if err := w.openLedger(); err != nil {
		return nil, err
	}
	if err := w.openState(); err != nil {
		return nil, err
	}
	gid := w.Ledger.GetMeta().RootBlockid
	gb, err := w.Ledger.QueryBlock(gid)
	if err != nil {
		return nil, fmt.Errorf("query genesis: %v", err)
	}
	w.Genesis = gb
	return w, nil
}

func (w *World) openLedger() error {
	lctx := &ledger.LedgerCtx{EnvCfg: w.Env, LedgerCfg: ledgerConf(), BCName: BCName}
	lctx.XLog = w.Log
	lctx.Timer = timer.NewXTimer()
	leg, err := ledger.OpenLedger(lctx)
	if err != nil {
		return fmt.Errorf("open ledger: %v", err)
	}
	w.Ledger = leg
	return nil
}

func (w *World) openState() error {
	sctx := &sctxpkg.StateCtx{EnvCfg: w.Env, LedgerCfg: ledgerConf(), BCName: BCName, Ledger: w.Ledger, Crypt: Crypto}
	sctx.XLog = w.Log
	sctx.Timer = timer.NewXTimer()
	st, err := state.NewState(sctx)
	if err != nil {
		return fmt.Errorf("new state: %v", err)
	}
	w.State = st
	cc := &common.ChainCtx{BCName: BCName, Ledger: w.Ledger, State: st, Crypto: Crypto}
	cc.XLog = w.Log
	cc.Timer = timer.NewXTimer()
	w.Chain = cc
	mg, err := contract.CreateManager("default", &contract.ManagerConfig{
		Basedir:  "/vkv-contract",
		BCName:   BCName,
		Core:     agent.NewChainCoreAgent(cc),
		XMReader: st.CreateXMReader(),
		Config: &contract.ContractConfig{
			Xkernel:   contract.XkernelConfig{Enable: true, Driver: "default"},
			LogDriver: w.Log,
		},
	})
	if err != nil {
		return fmt.Errorf("contract manager: %v", err)
	}
	cc.Contract = mg
	st.SetContractMG(mg)
	la := agent.NewLedgerAgent(cc)
	ac := &actx.AclCtx{BcName: BCName, Ledger: la, Contract: mg}
	ac.XLog = w.Log
	ac.Timer = timer.NewXTimer()
	am, err := acl.NewACLManager(ac)
	if err != nil {
		return fmt.Errorf("acl manager: %v", err)
	}
	cc.Acl = am
	st.SetAclMG(am)
	gc := &governToken.GovCtx{BcName: BCName, Ledger: la, Contract: mg}
	gc.XLog = w.Log
	gc.Timer = timer.NewXTimer()
	gm, err := governToken.NewGovManager(gc)
	if err != nil {
		return fmt.Errorf("govern manager: %v", err)
	}
	cc.GovernToken = gm
	st.SetGovernTokenMG(gm)
	pc := &propose.ProposeCtx{BcName: BCName, Ledger: la, Contract: mg}
	pc.XLog = w.Log
	pc.Timer = timer.NewXTimer()
	pm, err := propose.NewProposeManager(pc)
	if err != nil {
		return fmt.Errorf("propose manager: %v", err)
	}
	cc.Proposal = pm
	st.SetProposalMG(pm)
	tc := &timerTask.TimerCtx{BcName: BCName, Ledger: la, Contract: mg}
	tc.XLog = w.Log
	tc.Timer = timer.NewXTimer()
	tm, err := timerTask.NewTimerTaskManager(tc)
	if err != nil {
		return fmt.Errorf("timer manager: %v", err)
	}
	cc.TimerTask = tm
	st.SetTimerTaskMG(tm)
	if w.KernelHook != nil {
		w.KernelHook(mg)
	}
	w.Node = xuperos.VNewChain(cc)
	return nil
}

// Acl returns the ACL manager.
func (w *World) Acl() aclBase.AclManager { return w.Chain.Acl }

// Restart closes ledger and state and reopens both on the same stores.
func (w *World) Restart() error {
	w.State.Close()
	w.Ledger.Close()
	if err := w.openLedger(); err != nil {
		return err
	}
	return w.openState()
}

// Reopened opens a second, independent instance on a copy of the stores.
func (w *World) Reopened() (*World, error) {
	return Open(w.Cfg, w.Space.Clone(), w.KernelHook)
}

// Drop releases the space.
func (w *World) Drop() {
	if w.Space != nil {
		w.Space.Drop()
	}
}
